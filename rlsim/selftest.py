"""Determinism self-test of the simulator:  ./check selftest-determinism [--runs N]

For every check, N plans are generated from their indices and executed twice, each time in a
FRESH interpreter: once under PYTHONHASHSEED=0 in ascending order, once under another hash
seed, in descending order (different warm-up / cache state), with a different global RNG state.
The event-log digests must agree pairwise.  Exit 0 / 2 (a mismatch is a harness error, never a
VIOLATION)."""
import json
import os
import random
import subprocess
import sys
from concurrent.futures import ThreadPoolExecutor

PROPS = os.environ.get("RLSIM_SELFTEST_PROPS", "").split(",") if os.environ.get("RLSIM_SELFTEST_PROPS") else ["C01", "C02", "C03", "C04", "C05", "C06", "C07", "C08", "C10", "C11", "C13", "C14", "C15", "C16", "C19", "C20"]


def child(prop, tier, indices, salt):
    from rlsim import core

    core.setup_env()
    import numpy as np

    random.seed(salt)
    np.random.seed(salt)
    mod = core.get_check(prop)
    out = {}
    for idx in indices:
        seed = core.derive_seed(prop, 0, tier, idx)
        plan = mod.make_plan(random.Random(seed), tier, idx)
        r = core.run_plan(mod, plan)
        out[str(idx)] = r["digest"]
    print("DIGESTS " + json.dumps(out))


def spawn(prop, tier, indices, hashseed, salt):
    env = dict(os.environ, PYTHONHASHSEED=str(hashseed))
    cp = subprocess.run([sys.executable, "-m", "rlsim.selftest", "child", prop, tier, ",".join(map(str, indices)), str(salt)],
                        capture_output=True, text=True, env=env, timeout=3000, cwd=os.path.dirname(os.path.dirname(os.path.abspath(__file__))))
    for line in cp.stdout.splitlines():
        if line.startswith("DIGESTS "):
            return json.loads(line[8:])
    raise RuntimeError(f"{prop}: child failed: {cp.stdout[-800:]} {cp.stderr[-1500:]}")


def main(a):
    n = a.runs or 12
    tier = a.tier
    jobs = []
    for p in PROPS:
        idx = list(range(n)) if p not in ("C07",) else list(range(min(n, 4)))
        jobs.append((p, tier, idx, 0, 1))
        jobs.append((p, tier, idx[::-1], 4242, 2))
    with ThreadPoolExecutor(max_workers=min(a.workers, 16)) as ex:
        res = list(ex.map(lambda j: spawn(*j), jobs))
    bad = 0
    total = 0
    for k in range(0, len(jobs), 2):
        p = jobs[k][0]
        d1, d2 = res[k], res[k + 1]
        diff = [i for i in d1 if d1[i] != d2.get(i)]
        total += len(d1)
        print(f"[selftest-determinism] {p}: {len(d1)} plans x 2 fresh interpreters (hash seeds 0 / 4242, opposite order): {'OK' if not diff else 'MISMATCH at plan indices ' + str(diff)}")
        bad += len(diff)
    print(f"[selftest-determinism] {total} plans, {bad} mismatches")
    return 0 if bad == 0 else 2


if __name__ == "__main__":
    if sys.argv[1] == "child":
        child(sys.argv[2], sys.argv[3], [int(x) for x in sys.argv[4].split(",")], int(sys.argv[5]))
