"""TwinRun child: executes one plan in a fresh interpreter under a perturbation of
everything that must NOT matter (hash seed via env, global RNG state, wall clock),
prints the digest and dumps the event list."""
import json
import os
import sys


def main():
    plan_path, variant, out_path = sys.argv[1], int(sys.argv[2]), sys.argv[3]
    os.environ["RLSIM_LOG_KEEP"] = "20000"
    from rlsim import core

    core.setup_env()
    import random
    import time

    import numpy as np

    # perturbations
    random.seed(1000 + variant)
    np.random.seed(2000 + variant)
    # simulated wall clock (deterministic per variant, so a time-dependent result replays):
    # different epoch (odd shift), different rate
    base = [1.7e9, 1.7e9 + 12345.678 + 1.0, 0.5e9 + 77.25][variant % 3]
    inc = [0.001, 0.37, 1.0][variant % 3]
    state = {"n": 0}

    def fake_time():
        state["n"] += 1
        return base + inc * state["n"]

    time.time = fake_time
    with open(plan_path) as f:
        plan = json.load(f)
    from rlsim.checks import c09

    res = c09.execute_inner(plan)
    with open(out_path, "w") as f:
        json.dump({"digest": res.log.digest(), "n": res.log.n, "events": res.log.events, "violations": res.violations,
                   "probes": res.probes, "faults": res.faults, "sim": res.sim}, f)
    print("TWIN-OK")


if __name__ == "__main__":
    main()
