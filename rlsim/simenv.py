"""Environment seam: scheduler-controlled gymnasium environments.

SimEnv plays a *script*: every episode's length, the way it ends (terminated /
truncated / both) and every reward are fixed by the plan; dynamics ignore the
action.  Observations are unique self-describing tags, the environment is also a
protocol monitor (step after episode end, action bounds/shape/dtype, step count)
and it records every call with arguments and results.

Observation tag for the g-th observation the env ever produced (g >= 1):
    obs[c] = (8*g + c) / 8192        (exact in float32 for g < 2**17)
"""
from __future__ import annotations

import gymnasium as gym
import numpy as np

SCALE = 8192.0


class SimAbort(Exception):
    """Raised by the env when the code under test runs away (bounded runs)."""


def obs_tag(g, dim):
    return ((8 * g + np.arange(dim)) / SCALE).astype(np.float32)


def obs_gid(obs):
    """Decode an observation tag -> g, or None if it is not a tag."""
    a = np.asarray(obs, dtype=np.float64).reshape(-1)
    if a.size == 0 or not np.all(np.isfinite(a)):
        return None
    v = a * SCALE
    if np.any(np.abs(v - np.round(v)) > 0):
        return None
    v = np.round(v).astype(np.int64)
    g = v[0] // 8
    if g < 1 or np.any(v != 8 * g + np.arange(a.size)):
        return None
    return int(g)


class RecBox(gym.spaces.Box):
    """Real Box whose sample() is recorded (the sampler belongs to the env)."""

    def __init__(self, *a, **k):
        super().__init__(*a, **k)
        self.recorded = []
        self.on_sample = None

    def sample(self, mask=None, probability=None):
        v = super().sample()
        self.recorded.append(np.array(v, copy=True))
        if self.on_sample is not None:
            self.on_sample(v)
        return v


class RecDiscrete(gym.spaces.Discrete):
    def __init__(self, *a, **k):
        super().__init__(*a, **k)
        self.recorded = []
        self.on_sample = None

    def sample(self, mask=None, probability=None):
        v = super().sample()
        self.recorded.append(int(v))
        if self.on_sample is not None:
            self.on_sample(v)
        return v


class SimEnv(gym.Env):
    """Scripted environment.

    script: list of episodes {"len": L>=1, "end": "term"|"trunc"|"both", "rew": [r...] optional}
    After the script is exhausted episodes of `tail_len` steps ending with `tail_end` follow.
    """

    metadata = {"render_modes": []}

    def __init__(self, script, obs_dim=3, act_dim=1, discrete=0, low=-1.0, high=1.0,
                 tail_len=7, tail_end="trunc", max_steps=10_000, space_seed=0, name="env", act_dtype="float32", reward_type="float", gid_offset=0):
        self.script = script
        self.obs_dim = obs_dim
        self.observation_space = gym.spaces.Box(-np.inf, np.inf, (obs_dim,), np.float32)
        if discrete:
            self.action_space = RecDiscrete(discrete)
        else:
            dt = np.dtype(act_dtype)  # float64 action spaces are legal in gymnasium, if unusual
            lo = np.broadcast_to(np.asarray(low, dtype=dt), (act_dim,)).copy()
            hi = np.broadcast_to(np.asarray(high, dtype=dt), (act_dim,)).copy()
            self.action_space = RecBox(lo, hi, (act_dim,), dt.type)
        self.action_space.seed(space_seed)
        self.action_space.on_sample = self._on_sample
        self.discrete = discrete
        self.tail_len, self.tail_end = tail_len, tail_end
        self.max_steps = max_steps
        self.name = name
        self.reward_type = reward_type  # "int": integral rewards are returned as Python int (gymnasium only asks for SupportsFloat)
        # log & state
        self.log = []  # events (dicts)
        self.g = gid_offset  # observation counter (an offset separates the tag ranges of parallel environments)
        self.gid_offset = gid_offset
        self.ep = 0  # episode counter (1-based once reset)
        self.t = 0
        self.n_steps = 0
        self.n_resets = 0
        self.done = True  # needs reset
        self.cur_obs = None
        self.cur_gid = None
        self.protocol = []  # protocol violations
        self.listeners = []  # callables(kind, env, info) called BEFORE the event is processed
        self.after = []  # callables(kind, env, event) called AFTER
        self.sample_since_step = []
        self.context = None

    # -- helpers
    def _on_sample(self, v):
        self.sample_since_step.append(np.array(v, copy=True))
        self.log.append({"k": "sample", "v": np.array(v, copy=True)})

    def _episode(self):
        i = self.ep - 1
        if i < len(self.script):
            return self.script[i]
        return {"len": self.tail_len, "end": self.tail_end}

    def _new_obs(self):
        self.g += 1
        self.cur_gid = self.g
        self.cur_obs = obs_tag(self.g, self.obs_dim)
        return self.cur_obs.copy()

    def reward_for(self, ep, t):
        e = self.script[ep - 1] if ep - 1 < len(self.script) else {}
        rew = e.get("rew")
        if rew:
            return float(rew[t % len(rew)])
        return float(((ep * 5 + t * 3) % 9 - 4) / 4.0)

    # -- gym API
    def reset(self, *, seed=None, options=None):
        for f in self.listeners:
            f("reset", self, None)
        self.n_resets += 1
        mid = not self.done and self.t > 0
        self.ep += 1
        self.t = 0
        self.done = False
        obs = self._new_obs()
        ev = {"k": "reset", "gid": self.cur_gid, "ep": self.ep, "seed": seed, "mid_episode": mid, "ctx": self.context}
        self.log.append(ev)
        for f in self.after:
            f("reset", self, ev)
        return obs, {}

    def step(self, action):
        for f in self.listeners:
            f("step", self, action)
        if self.n_steps >= self.max_steps:
            raise SimAbort(f"{self.name}: more than {self.max_steps} steps")
        a = np.array(action, copy=True)
        bad = None
        if self.done:
            self.protocol.append({"kind": "step_after_end", "at_step": self.n_steps, "ep": self.ep})
            bad = "step_after_end"
            if len([p for p in self.protocol if p["kind"] == "step_after_end"]) > 5:
                raise SimAbort(f"{self.name}: repeated step() on a finished episode")
            # keep going as a fresh pseudo-episode so that the run stays finite
            self.ep += 1
            self.t = 0
            self.done = False
        e = self._episode()
        gid_before = self.cur_gid
        self.t += 1
        self.n_steps += 1
        last = self.t >= e["len"]
        term = bool(last and e["end"] in ("term", "both"))
        trunc = bool(last and e["end"] in ("trunc", "both"))
        r = self.reward_for(self.ep, self.t - 1)
        if self.reward_type == "int" and float(r).is_integer():
            r = int(r)
        obs = self._new_obs()
        ev = {"k": "step", "i": self.n_steps - 1, "a": a, "gid0": gid_before, "gid1": self.cur_gid, "r": r,
              "term": term, "trunc": trunc, "ep": self.ep, "t": self.t - 1, "sampled": list(self.sample_since_step),
              "bad": bad, "ctx": self.context}
        self.sample_since_step = []
        self.log.append(ev)
        if term or trunc:
            self.done = True
        for f in self.after:
            f("step", self, ev)
        return obs, r, term, trunc, {}

    # -- views
    def steps(self):
        return [e for e in self.log if e["k"] == "step"]

    def resets(self):
        return [e for e in self.log if e["k"] == "reset"]


class RescaledSimEnv(gym.Wrapper):
    """SimEnv behind gymnasium's RescaleAction (a wrapper that CHANGES the action space: the routine sees [lo, hi], the scripted
    environment its own box), with an outermost recording layer: every action the routine passes to the environment it was given
    is kept in `outer_actions`. Harness attributes (log, steps(), listeners ...) are forwarded to the inner SimEnv."""

    def __init__(self, inner, lo=-1.0, hi=1.0):
        super().__init__(gym.wrappers.RescaleAction(inner, np.float32(lo), np.float32(hi)))
        self.__dict__["inner"] = inner
        self.__dict__["outer_actions"] = []

    def step(self, action):
        self.__dict__["outer_actions"].append(np.array(action, copy=True))
        return self.env.step(action)

    def __getattr__(self, name):
        if name.startswith("_") or "inner" not in self.__dict__:
            raise AttributeError(name)
        return getattr(self.__dict__["inner"], name)


def make_script(rng, n_steps, style=None, h=None):
    """Episode script covering about n_steps steps. Swarm: style first."""
    style = style or rng.choice(["long", "short", "one_step", "mixed", "mixed", "very_long"])
    ends = rng.choice([["term"], ["trunc"], ["term", "trunc"], ["term", "trunc", "both"]])
    script = []
    total = 0
    while total < n_steps + 5:
        if style == "long":
            L = rng.randint(6, 15)
        elif style == "short":
            L = rng.randint(1, 4)
        elif style == "one_step":
            L = 1 if rng.random() < 0.8 else rng.randint(2, 3)
        elif style == "very_long":
            L = rng.randint(20, 60)
        else:
            L = rng.choice([1, 1, 2, 3, 5, 8, 13])
        ep = {"len": L, "end": rng.choice(ends)}
        if rng.random() < 0.5:
            ep["rew"] = [rng.choice([-2.0, -1.0, -0.5, 0.0, 0.25, 0.5, 1.0, 3.0]) for _ in range(rng.randint(1, 3))]
        script.append(ep)
        total += L
    return script
