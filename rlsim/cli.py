"""Entry point:  python -m rlsim.cli <ID> [--tier quick|thorough] [--replay FILE] ..."""
import argparse
import json
import os
import sys


def main(argv=None):
    ap = argparse.ArgumentParser()
    ap.add_argument("prop")
    ap.add_argument("--tier", default=os.environ.get("VERIF_TIER", "quick"))
    ap.add_argument("--replay")
    ap.add_argument("--json", action="store_true")
    ap.add_argument("--workers", type=int, default=int(os.environ.get("VERIF_WORKERS", "16")))
    ap.add_argument("--runs", type=int)
    ap.add_argument("--budget-s", type=float)
    a = ap.parse_args(argv)
    from rlsim import core

    core.setup_env()
    if a.prop.startswith("selftest"):
        from rlsim import selftest

        return selftest.main(a)
    prop = a.prop.upper()
    if a.replay:
        r, doc = core.replay_file(prop, a.replay, quiet=a.json)
        classes = sorted({(v["clause"], v["site"]) for v in r["violations"]})
        if a.json:
            print("REPLAY-JSON " + json.dumps({"classes": classes, "digest": r["digest"]}))
        if r["violations"]:
            print(f"VIOLATION property={prop} replay={a.replay}")
            return 1
        return 0
    seed = int(os.environ.get("VERIF_SEED", "0"))
    return core.run_tier(prop, a.tier, seed, a.workers, runs=a.runs, budget_s=a.budget_s)


if __name__ == "__main__":
    try:
        code = main()
    except SystemExit:
        raise
    except BaseException:
        import traceback

        traceback.print_exc()
        print("HARNESS-ERROR uncaught exception in runner", file=sys.stderr)
        code = 2
    sys.exit(code)
