"""C20 — loggers record faithfully and checkpoint exactly at interval crossings."""
from rlsim import loggersim

PROPERTY = "C20"
LEVEL = "exploration"
ENGINE = "LoggerSim"
RULE = ("Seeded plans: member set from {MemoryLogger, StandardLogger, OrbaxCheckpointer} (1-3, optionally inside LoggerList) x call histories "
        "of 5-80 operations from define_experiment / define_checkpoint_frequency / start_new_episode / stop_episode(n) / record_stat with "
        "explicit or implicit episode, step, t / record_epoch with explicit (repeats, +1, jumps over several intervals, exact multiples) or "
        "implicit steps / clock jumps forward and backward / injected checkpoint-write failures (ENOSPC raised once by the member's checkpointer), under a simulated clock that logs every read. Real Orbax on a per-run scratch "
        "directory. Reference: python lists. Distinct = distinct (members, list?, op kinds, intervals, fault kinds, length).")
REAL = ["MemoryLogger", "StandardLogger", "OrbaxCheckpointer", "LoggerList", "orbax.checkpoint.StandardCheckpointer", "file system"]
STUB = ["clock (SimClock installed as the `time` attribute of rl_blox.logging.logger / .checkpointer)"]
ASSUMPTIONS = ["steps per key are non-decreasing and checkpoint frequencies are defined before the first record of a key (the property's quantifier)",
               "implicit time field = (some clock read made during that very call) - (some clock read made during define_experiment, or 0)"]
TIERS = {"quick": {"runs": 400}, "thorough": {"runs": 12000}}
REQUIRED = ["stat_series_checked", "implicit_time_checked", "checkpoints_restored", "list_members_compared", "clock_jump_backward",
            "jump_over_several_intervals", "exact_multiple", "repeated_step", "epoch_without_frequency", "checkpoint_write_failed", "checkpoints_restored_after_write_fault"]
REQUIRED_QUICK = REQUIRED
SHRINK_LISTS = [["ops"]]
SHRINK_INTS = []


def make_plan(rng, tier, index):
    plan = loggersim.make_plan(rng)
    plan["check"] = PROPERTY
    return plan


def normalise(plan):
    return plan


def execute(plan):
    return loggersim.execute(plan)
