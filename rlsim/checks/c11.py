"""C11 — step budget, episode discipline and step accounting are exact (TrainSim part)."""
from rlsim import trainplan, trainsim

PROPERTY = "C11"
LEVEL = "exploration"
ENGINE = "TrainSim + SchedulerSim"
RULE = ("Seeded plans: training routine x scripted environment x budget (total_timesteps), starting global_step (0, mid-run, equal to the "
        "budget), episode limit, warm-up threshold, resume chains of 2-3 calls fed with the returned counter. The env is a protocol monitor "
        "(step after episode end, step count); parameter snapshots at every env event decide 'no update before warm-up'. "
        "Distinct = distinct (adapter, configuration vector, exit kind, fault-kind set).")
REAL = ["train_* routines", "buffers", "JAX/Flax/Optax", "multi-task schedulers (SchedulerSim plans)"]
STUB = ["environment (SimEnv)", "action-space sampler", "train_st callback (StubTrainST) in scheduler plans"]
ASSUMPTIONS = ["DQN family: the update gate checked is `step > batch_size` (the gate named in the property's anchors)",
               "an extra env.reset() after the last episode is not a violation"]
TIERS = {"quick": {"runs": 300}, "thorough": {"runs": 3600}}
REQUIRED = ["large_global_step", "restart_counter_with_reused_state", "non_identity_task_ids", "budget_exit", "episode_limit_exit", "resume", "warmup_iterations_observed", "returned_counter_exact", "scheduler_totals_exact", "ucb_argmax_checked", "initial_rounds", "protocol_misuse_rejected", "rollouts_checked", "several_tasks_trained"]
REQUIRED_QUICK = ["budget_exit", "episode_limit_exit", "resume"]
CHUNK = 24  # TrainSim plans per fresh worker process
SHRINK_LISTS = [["env", "script"], ["chain"], ["ops"]]
SHRINK_INTS = []
CLAUSES = ["C11.a", "C11.b", "C11.c", "C11.d", "C11.e"]
PLAN_LIMIT_S = 120
ADAPTERS = ["ddpg", "td3", "td3_lap", "sac", "dqn", "nature_dqn", "ddqn", "ddqn_per", "td7", "mrq", "pets", "reinforce", "actor_critic", "a2c", "ppo", "cmaes"]


def _T(rng, tier, name, short):
    """Run length: thorough tier adds a share of long runs (deeper bound) for the cheaper routines."""
    if tier == "thorough" and name not in ("pets", "mrq", "td7", "ppo", "cmaes") and rng.random() < 0.15:
        return rng.choice([80, 150])
    return rng.choice(short)


def make_plan(rng, tier, index):
    if index % 3 == 2:
        from rlsim import schedsim
        plan = schedsim.make_plan(rng, index // 3)
        plan.update(check=PROPERTY, kind="sched")
        return plan
    index = index - index // 3 - (1 if index % 3 == 2 else 0)
    name = ADAPTERS[index % len(ADAPTERS)]
    ad = trainsim.ADAPTERS[name]
    plan = trainplan.base_plan(rng, PROPERTY, CLAUSES, name, T=_T(rng, tier, name, [10, 16, 24, 36]) if name != "pets" else rng.choice([8, 12]))
    plan["monitor"] = True
    T = plan["chain"][0]["total_timesteps"]
    mode = rng.choice(["budget", "episodes", "resume", "start_mid", "zero", "reuse_buffer"])
    if mode == "reuse_buffer" and ad.has_global_step and "learning_starts" in plan["cfg"] and name not in ("mrq",):
        # a new run from step 0 that re-uses the (already filled) buffer and networks of an earlier run
        ls = rng.choice([3, 5, 8])
        plan["cfg"]["learning_starts"] = ls
        plan["cfg"]["buffer_size"] = max(plan["cfg"].get("buffer_size", 64), 64)
        T1 = ls + rng.choice([4, 8])
        plan["chain"] = [{"total_timesteps": T1, "total_episodes": None}, {"total_timesteps": ls + rng.choice([2, 6]), "total_episodes": None, "global_step": 0}]
        plan["env"]["max_steps"] = 400
        return plan
    if name == "cmaes":
        plan["chain"][0]["total_episodes"] = plan["cfg"]["total_episodes"]
    elif mode == "episodes" and ad.has_total_episodes:
        plan["chain"][0]["total_episodes"] = rng.choice([1, 1, 2, 3])
        if rng.random() < 0.4:
            # the step budget runs out first, in the middle of an episode, although an episode limit is set
            E = plan["chain"][0]["total_episodes"]
            sc = plan["env"]["script"]
            sc[min(E, len(sc)) - 1]["len"] = T + rng.choice([3, 10])
    elif mode == "resume" and ad.has_global_step:
        cuts = sorted({rng.randint(1, T - 1) for _ in range(rng.choice([1, 2]))})
        plan["chain"] = [{"total_timesteps": c, "total_episodes": None} for c in cuts] + [{"total_timesteps": T, "total_episodes": None}]
        if ad.has_total_episodes and rng.random() < 0.4:
            plan["chain"][0]["total_episodes"] = rng.choice([1, 2])
    elif mode == "start_mid" and ad.has_global_step:
        if rng.random() < 0.5:
            plan["start_step"] = rng.randint(1, T - 1)
        else:
            # continue a long run: the counter is large, only a few steps are executed (hard-coded periods such as
            # "every 250 steps" are crossed)
            start = rng.choice([250, 500, 750, 1000]) - rng.randint(1, 8)
            n = rng.choice([10, 14, 20])
            plan["start_step"] = start
            plan["chain"] = [{"total_timesteps": start + n, "total_episodes": None}]
            plan["env"]["max_steps"] = 4 * n + 200
            if "learning_starts" in plan["cfg"] and name != "mrq":
                plan["cfg"]["learning_starts"] = rng.choice([0, 5, start - 3, start + 4])
            plan["env"]["script"] = trainplan.make_script(rng, n + 10, style=rng.choice(["short", "mixed", "one_step"]))
            return trainplan.sanitize(plan)
    elif mode == "zero" and ad.has_global_step:
        plan["start_step"] = rng.choice([T, T + 2])
    if rng.random() < 0.6:
        trainplan.boundary_coincidences(rng, plan)
    if name in ("reinforce", "actor_critic", "a2c") and rng.random() < 0.5:
        trainplan.exact_collection_budget(rng, plan)
    return plan


def normalise(plan):
    if plan.get("kind") == "sched":
        if plan.get("sched_kind") == "rollout" and not plan.get("script"):
            plan["script"] = [{"len": 1, "end": "trunc"}]
        return plan
    if not plan["chain"]:
        plan["chain"] = [{"total_timesteps": 5, "total_episodes": None}]
    return trainplan.sanitize(plan)


def execute(plan):
    if plan.get("kind") == "sched":
        from rlsim import schedsim
        return schedsim.execute(plan)
    return trainsim.execute(plan)
