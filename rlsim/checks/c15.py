"""C15 — deferred training releases exactly the collected steps; checkpoints only improve."""
from rlsim import ckptsim, trainplan, trainsim

PROPERTY = "C15"
LEVEL = "exploration"
ENGINE = "CheckpointSim + TrainSim(train_td7)"
RULE = ("Seeded plans. CheckpointSim (9 of 10 plans): assess_performance_and_checkpoint driven by scripted (episode length, return) histories "
        "of 1-60 episodes (rising / falling / oscillating / equal / negative returns), window sizes 1-20, thresholds 0..1e6, reset weights, "
        "starting epochs, with the caller-side epoch bookkeeping of train_td7, against a reference state machine (conservation, reset, "
        ">= vs >, cut-short, single switch). TrainSim (1 of 10): train_td7 on SimEnv with scripted returns; released train iterations "
        "(one 'embedding loss' record each), 'training steps' records and 'actor_checkpoint' events per iteration vs the reference; "
        "checkpoint modules bitwise equal to the acting policy at replacement and constant otherwise. "
        "Additional plans: train_td7 limited by total_episodes (the window ending with the last budgeted episode is assessed as well). The checkpoint must equal the actor as it was at the START of the iteration of its replacement (the assessed policy, before the training steps released in that iteration). " "Distinct = distinct (window, threshold, weight, start epoch, history length, #updates, fault kinds).")
REAL = ["blox.checkpointing.assess_performance_and_checkpoint", "CheckpointState", "train_td7 release loop and checkpoint copies"]
STUB = ["episode outcomes (scripted)", "environment (SimEnv) and logger (ProbeLogger) in TrainSim plans"]
ASSUMPTIONS = ["'crosses the threshold' = epoch_before < threshold <= epoch_after; threshold 0 is therefore never crossed",
               "episodes that end before learning_starts belong to no assessment window"]
TIERS = {"quick": {"runs": 3024}, "thorough": {"runs": 100400}}
REQUIRED = ["releases", "checkpoint_updates", "assessment_cut_short", "window_switch", "equal_returns", "td7_timelines"]
REQUIRED_QUICK = REQUIRED
CHUNK = 300
SHRINK_LISTS = [["episodes"], ["env", "script"]]
SHRINK_INTS = []


HEAVY_FROM = {"quick": 3000, "thorough": 100000}  # the appended plans are complete train_td7 runs: small chunks per worker process
HEAVY_CHUNK = 24
MINIMISE_MAX_EXEC = 60
BASE = {"quick": 3000, "thorough": 100000}  # additive extension: plans below these indices are those of the earlier tiers


def make_plan(rng, tier, index):
    if index >= BASE.get(tier, 10**9):
        # train_td7 limited by total_episodes: the window that ends with the last budgeted episode is assessed as well
        plan = trainplan.base_plan(rng, PROPERTY, ["C15", "C06"], "td7", T=rng.choice([45, 60]))
        plan["alias"] = {"C06.a": "C15.f", "C06.b": "C15.f", "C06.c": "C15.f", "C06.e": "C15.f"}
        plan["kind"] = "td7"
        plan["logger"] = True
        plan["monitor"] = True
        plan["cfg"]["use_checkpoints"] = True
        plan["cfg"]["learning_starts"] = rng.choice([0, 2, 5])
        plan["env"]["script"] = trainplan.make_script(rng, 70, style=rng.choice(["short", "mixed"]))
        plan["chain"][0]["total_episodes"] = rng.choice([2, 3, 4, 6])
        return plan
    if index % 100 < 3:
        plan = trainplan.base_plan(rng, PROPERTY, ["C15", "C06"], "td7", T=rng.choice([20, 30, 45]))
        plan["alias"] = {"C06.a": "C15.f", "C06.b": "C15.f", "C06.c": "C15.f", "C06.e": "C15.f"}
        plan["kind"] = "td7"
        plan["logger"] = True
        plan["monitor"] = True
        plan["cfg"]["use_checkpoints"] = rng.random() < 0.85
        plan["cfg"]["learning_starts"] = rng.choice([0, 2, 5, 9])
        plan["env"]["script"] = trainplan.make_script(rng, 50, style=rng.choice(["short", "mixed", "one_step"]))
        return plan
    plan = ckptsim.make_plan(rng)
    plan.update(check=PROPERTY, kind="assess")
    return plan


def normalise(plan):
    return plan


def execute(plan):
    if plan.get("kind") == "td7":
        return trainsim.execute(plan)
    return ckptsim.execute(plan)
