"""C01 — stored experience equals what the environment actually produced."""
from rlsim import trainplan, trainsim

PROPERTY = "C01"
LEVEL = "exploration"
ENGINE = "TrainSim"
RULE = ("Seeded plans: adapter (training routine) x scripted environment (episode lengths 1..60, terminated / truncated / both ends, "
        "boundary coincidences with warm-up end, ring wrap and budget end) x hyper-parameters (warm-up, batch, capacity 1..1000, delays). "
        "The complete train_* routine runs against SimEnv; afterwards every stored row is matched to the env log through unique observation "
        "tags, and at every env.step the acting module's probe input is compared with the current observation. "
        "Distinct = distinct (adapter, configuration vector, fault-kind set).")
REAL = ["train_* routines", "replay buffers", "losses/optimisers/target updates", "JAX/Flax/Optax", "gymnasium spaces"]
STUB = ["environment (SimEnv)", "action-space sampler (recording subclass of the real space)", "networks are real tiny MLPs with probes"]
ASSUMPTIONS = ["stored rows are read through the documented public `buffer` mapping and len()",
               "SimEnv ignores actions (bookkeeping properties do not depend on closed-loop dynamics)"]
TIERS = {"quick": {"runs": 160}, "thorough": {"runs": 2000}}
REQUIRED = ["multitask_rows_checked", "multitask_several_task_buffers", "datasets_checked", "dataset_with_several_episodes", "parallel_environments", "stored_rows_checked", "stored_first_transition_after_reset", "acting_on_current_obs", "capacity_smaller_than_run", "one_step_episode"]
REQUIRED_QUICK = REQUIRED
CHUNK = 24  # TrainSim plans per fresh worker process
SHRINK_LISTS = [["env", "script"]]
PLAN_LIMIT_S = 200
SHRINK_INTS = []
CLAUSES = ["C01.a", "C01.b", "C01.c", "C01.d"]
ADAPTERS = ["ddpg", "td3", "td3_lap", "sac", "dqn", "nature_dqn", "ddqn", "ddqn_per", "td7", "mrq", "pets", "reinforce", "actor_critic", "a2c", "ppo", "cmaes"]


def _T(rng, tier, name, short):
    """Run length: thorough tier adds a share of long runs (deeper bound) for the cheaper routines."""
    if tier == "thorough" and name not in ("pets", "mrq", "td7", "ppo", "cmaes") and rng.random() < 0.15:
        return rng.choice([80, 150])
    return rng.choice(short)


def make_plan(rng, tier, index):
    if index % 10 == 9:
        # multi-task training: per-task buffers of MultiTaskReplayBuffer filled through a scheduler
        from rlsim import schedsim
        while True:
            plan = schedsim.make_plan(rng, 6)
            if plan["sched_kind"] == "scheduler" and plan["scheduler"] in ("smt", "active_mt"):
                break  # train_uts does not route a multi-task buffer (it has no replay_buffer parameter)
        plan["backbone"] = "stub" if rng.random() < 0.8 else rng.choice(["td3", "sac"])
        plan["n_tasks"] = rng.choice([2, 3, 5])
        plan["buffer_size"] = 1000
        plan["check_store"] = True
        plan.update(check=PROPERTY, kind="sched")
        return plan
    index = index - index // 10
    ad = ADAPTERS[index % len(ADAPTERS)]
    plan = trainplan.base_plan(rng, PROPERTY, CLAUSES, ad, T=rng.choice([10, 14]) if ad == "pets" else _T(rng, tier, ad, [12, 20, 30, 45]))
    if rng.random() < 0.6:
        trainplan.boundary_coincidences(rng, plan)
    return plan


def normalise(plan):
    return trainplan.sanitize(plan)


def execute(plan):
    if plan.get("kind") == "sched":
        from rlsim import schedsim
        return schedsim.execute(plan)
    return trainsim.execute(plan)
