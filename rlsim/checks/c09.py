"""C09 — training is a deterministic function of seed, initial state and environment."""
import json
import os
import subprocess
import sys
import tempfile

from rlsim import core, tabsim, trainplan, trainsim
from rlsim.core import Result

PROPERTY = "C09"
LEVEL = "fault_enumeration"
ENGINE = "TwinRun (TrainSim / TabularSim / SchedulerSim in fresh interpreters)"
RULE = ("One plan per (routine, configuration that exercises learning). Each plan is executed three times in FRESH interpreters: twins A and B "
        "with the same plan but different fixed PYTHONHASHSEED values, different global numpy / random seeds, a shifted and rescaled "
        "wall clock (time.time patched), different process start order; run C with a different `seed` argument. The digest covers the whole "
        "event log: every action the environment received, every logged statistic (key, value, episode, step; no time field), MemoryLogger "
        "series, stored buffer rows, returned counters and the hash of every returned module and optimiser. A == B bitwise; C differs. "
        "Distinct = distinct (routine, configuration vector).")
REAL = ["all train_* routines incl. buffers, losses, optimisers", "MemoryLogger", "JAX/XLA (same machine, one intra-op thread)"]
STUB = ["environment (SimEnv / SimTabEnv, seeded sampler)"]
ASSUMPTIONS = ["XLA thread configuration and platform are held fixed between twins (the property assumes the same machine)",
               "identically initialised function approximators = built by the same constructor calls from the same seed in each interpreter"]
TIERS = {"quick": {"runs": 84}, "thorough": {"runs": 588}}
REQUIRED = ["twin_pairs_equal", "different_seed_differs"]
REQUIRED_QUICK = REQUIRED
CHUNK = 24  # TrainSim plans per fresh worker process
SHRINK_LISTS = []
SHRINK_INTS = []
DIGEST_STABLE = False  # the violation class must reproduce in a fresh process, the twin digests need not
TRAIN = ["ddpg", "td3", "td3_lap", "sac", "dqn", "nature_dqn", "ddqn", "ddqn_per", "td7", "mrq", "pets"]
TAB = ["q_learning", "sarsa", "double_q_learning", "monte_carlo", "dynaq"]


SCHED = ["smt", "active_mt", "uts"]


def routines():
    extra = [a for a in ("reinforce", "actor_critic", "a2c", "ppo", "cmaes") if a in trainsim.ADAPTERS]
    return [("train", a) for a in TRAIN + extra] + [("tab", a) for a in TAB] + [("sched", a) for a in SCHED]


def make_buffer_plan(rng):
    """Replay-buffer level twin: a multi-task buffer driven by a real seeded generator; sampled batches (and which task
    each batch comes from) must not depend on the interpreter (object addresses, hash seeds)."""
    from rlsim import buffersim

    cls = rng.choice(["ReplayBuffer", "LAP", "PrioritizedReplayBuffer", "SubtrajectoryReplayBuffer", "SubtrajectoryReplayBufferPER"])
    family = "sub" if cls.startswith("Sub") else "flat"
    n_tasks = rng.choice([2, 3, 4])
    H = 2 if family == "sub" else 1
    ops = []
    for t in range(n_tasks):
        ops.append(["select", t])
        ops += [["add", 0]] * 4 + [["add", 1]]
    for _ in range(rng.choice([10, 25])):
        ops.append(["sample", rng.choice([1, 2, 4]), [0.5], 0, 1, True, 0.4 if cls == "PrioritizedReplayBuffer" else None])
        if rng.random() < 0.3:
            ops += [["select", rng.randrange(n_tasks)], ["add", rng.choice([0, 0, 1])]]
    return {"check": PROPERTY, "engine": "buffer", "adapter": "MultiTaskReplayBuffer", "clauses": ["fields"], "family": family, "cls": cls,
            "n_tasks": n_tasks, "capacity": rng.choice([8, 16]), "horizon": H, "obs_dim": 1, "act_dim": 1, "discrete": False, "dtype": "default",
            "gen": "real", "gen_seed": rng.randrange(2**31), "seed": rng.randrange(2**31), "ops": ops}


def make_plan(rng, tier, index):
    if index % 6 == 5:
        plan = make_buffer_plan(rng)
        plan["hashseeds"] = [rng.choice(["0", "1"]), rng.choice(["7", "42", "123", "999"])]
        return plan
    index = index - index // 6
    rs = routines()
    kind, name = rs[index % len(rs)]
    if kind == "train":
        plan = trainplan.base_plan(rng, PROPERTY, [], name, T=rng.choice([16, 24]) if name not in ("pets",) else 10)
        plan["engine"] = "train"
        plan["logger"] = True
        plan["memory_logger"] = True
        plan["monitor"] = "final"
        c = plan["cfg"]
        if "learning_starts" in c and name not in ("mrq", "pets"):
            c["learning_starts"] = rng.choice([2, 4, 6])
        if "exploration_noise" in c:
            c["exploration_noise"] = rng.choice([0.1, 0.2])
        if "buffer_size" in c:
            c["buffer_size"] = max(c["buffer_size"], 8)
        if not plan["env"]["discrete"] and (index // len(rs)) % 3 == 1:
            plan["env"]["act_dtype"] = "float64"  # every third plan of a routine: a legal float64 action space
    elif kind == "sched":
        from rlsim import schedsim
        while True:
            plan = schedsim.make_plan(rng, 6)
            if plan["sched_kind"] == "scheduler":
                break
        plan["scheduler"] = name
        plan["backbone"] = "stub" if (name == "uts" or rng.random() < 0.4) else rng.choice(["ddpg", "td3"])
        if plan["backbone"] != "stub":
            plan["learning_starts"] = 4
            plan["n_tasks"] = rng.choice([2, 3])
            plan["total_timesteps"] = rng.choice([20, 30])
            plan["b1"], plan["b2"] = plan["total_timesteps"] // 2, plan["total_timesteps"] // 2
            plan["K"] = 2
        plan["interval"] = rng.choice([1, 2])
        if name == "active_mt" and (index // len(rs)) % 3 != 2:
            plan["selector"] = rng.choice(["Monotonic Progress", "Best Reward", "Diversity", "1-step Progress"])  # D-UCB based (hyper-parameters matter)
            plan["total_timesteps"] = max(plan["total_timesteps"], 35)
        plan.update(check=PROPERTY, engine="sched", adapter=name)
    else:
        plan = tabsim.make_tab_plan(rng, name, rng.choice([10, 25]))
        plan["epsilon"] = rng.choice([0.3, 0.5])
        if name == "dynaq":
            plan["n_planning_steps"] = rng.choice([1, 3])
        plan.update(check=PROPERTY, clauses=[], engine="tab")
    plan["hashseeds"] = [rng.choice(["0", "1"]), rng.choice(["7", "42", "123", "999"])]  # fixed values: a violation must replay
    return plan


def normalise(plan):
    return plan


def prerun_plan(plan):
    """A DIFFERENT configuration of the same routine, executed first in twin B's interpreter: results must not depend
    on what ran earlier in the process (hidden module-level state, caches keyed too coarsely)."""
    import json as _json

    p = _json.loads(_json.dumps(plan))
    p.pop("prerun", None)
    if plan["engine"] == "buffer":
        p["gen_seed"] = plan["gen_seed"] + 5
        p["ops"] = p["ops"][: len(p["ops"]) // 2]
        return p
    if plan["engine"] == "train":
        c = p["cfg"]
        for k, v in (("gamma", 0.37), ("tau", 0.11), ("hidden", 5 if c.get("hidden") != 5 else 6), ("batch_size", 5), ("variance", 0.33)):
            if k in c:
                c[k] = v
        p["seed"] = plan["seed"] + 13
        p["chain"] = [dict(l, total_timesteps=min(l["total_timesteps"], 12)) for l in p["chain"][:1]]
        if plan["adapter"] == "ppo":
            c["iterations"] = 1
    elif plan["engine"] == "tab":
        p.update(lr=0.77, gamma=0.41, seed=plan["seed"] + 13, T=min(plan["T"], 8))
    else:
        p.update(r_max=plan["r_max"] * 7.0, gamma=0.5, zeta=plan["zeta"] * 50.0, kappa=0.33, seed=plan["seed"] + 13)
    return p


def execute_inner(plan):
    """Runs in the twin child."""
    if plan.get("prerun"):
        pre = prerun_plan(plan)
        execute_inner(pre)
    if plan["engine"] == "buffer":
        from rlsim import buffersim

        return buffersim.execute(plan)
    if plan["engine"] == "sched":
        from rlsim import schedsim

        return schedsim.exec_scheduler(plan)
    if plan["engine"] == "tab":
        run = tabsim.TabRun(plan)
        run.res.log.keep = 20000
        return run.run()
    run = trainsim.TrainRun(plan)
    run.res.log.keep = 20000
    return run.run()


def child(plan, variant, hashseed, scratch, tag):
    pp = os.path.join(scratch, f"plan_{tag}.json")
    op = os.path.join(scratch, f"out_{tag}.json")
    with open(pp, "w") as f:
        json.dump(plan, f)
    env = dict(os.environ)
    env["PYTHONHASHSEED"] = hashseed
    cp = subprocess.run([sys.executable, "-m", "rlsim.twin", pp, str(variant), op], cwd=core.VERIF, env=env,
                        capture_output=True, text=True, timeout=900)
    if "TWIN-OK" not in cp.stdout:
        raise core.HarnessError(f"twin child failed: {cp.stdout[-1500:]} {cp.stderr[-2500:]}")
    with open(op) as f:
        return json.load(f)


def execute(plan):
    res = Result()
    site = plan["adapter"] if plan["engine"] == "buffer" else ("train_" + plan["adapter"]) if plan["engine"] in ("train", "sched") else ("train_" + plan["algo"])
    scratch = tempfile.mkdtemp(prefix="rlsim_twin_", dir=os.environ.get("VERIF_SCRATCH"))
    try:
        a = child(plan, 0, plan["hashseeds"][0], scratch, "a")
        pb = json.loads(json.dumps(plan))
        pb["prerun"] = True
        b = child(pb, 1, plan["hashseeds"][1], scratch, "b")
        p2 = json.loads(json.dumps(plan))
        p2["seed"] = plan["seed"] + 1
        if "gen_seed" in p2:
            p2["gen_seed"] += 1
        if isinstance(p2.get("env"), dict) and "space_seed" in p2["env"]:
            p2["env"]["space_seed"] += 1  # "a different seed" includes the environment's sampler seed
        c = child(p2, 2, plan["hashseeds"][0], scratch, "c")
    finally:
        import shutil

        shutil.rmtree(scratch, ignore_errors=True)
    res.log.add("digests", a["digest"], b["digest"], c["digest"])
    for k, v in a["sim"].items():
        res.simt(k, v)
    for v in a["violations"]:
        if v["clause"].endswith(".raise"):
            res.violate("C09.raise", site, v["detail"])
    if a["digest"] != b["digest"] or a["n"] != b["n"]:
        first = next((i for i, (x, y) in enumerate(zip(a["events"], b["events"])) if x != y), min(len(a["events"]), len(b["events"])))
        ea = a["events"][first][:300] if first < len(a["events"]) else "<end>"
        eb = b["events"][first][:300] if first < len(b["events"]) else "<end>"
        res.violate("C09.a", site, f"two runs of the same plan in fresh interpreters (hash seeds {plan['hashseeds']}, different global RNG state and wall clock) diverge at event {first}: {ea} vs {eb}")
    else:
        res.probe("twin_pairs_equal")
        res.fault("hashseed_" + plan["hashseeds"][1])
        res.fault("clock_shift")
        res.fault("global_rng_state")
        res.fault("different_configuration_ran_first")
    if a["digest"] == c["digest"]:
        res.violate("C09.b", site, "a run with a different seed produced the identical event log (the comparison would be vacuous)")
    else:
        res.probe("different_seed_differs")
    res.signature = site + "|" + json.dumps(plan.get("cfg", {k: plan.get(k) for k in ("T", "epsilon", "gamma", "lr")}), sort_keys=True)
    return res
