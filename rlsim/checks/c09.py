"""C09 — training is a deterministic function of seed, initial state and environment."""
import json
import os
import subprocess
import sys
import tempfile

from rlsim import core, tabsim, trainplan, trainsim
from rlsim.core import Result

PROPERTY = "C09"
LEVEL = "fault_enumeration"
ENGINE = "TwinRun (TrainSim / TabularSim / SchedulerSim in fresh interpreters)"
RULE = ("One plan per (routine, configuration that exercises learning). Each plan is executed three times in FRESH interpreters: twins A and B "
        "with the same plan but different fixed PYTHONHASHSEED values, different global numpy / random seeds, a shifted and rescaled "
        "wall clock (time.time patched), different process start order; run C with a different `seed` argument. The digest covers the whole "
        "event log: every action the environment received, every logged statistic (key, value, episode, step; no time field), MemoryLogger "
        "series, stored buffer rows, returned counters and the hash of every returned module and optimiser. A == B bitwise; C differs. "
        "Distinct = distinct (routine, configuration vector).")
REAL = ["all train_* routines incl. buffers, losses, optimisers", "MemoryLogger", "JAX/XLA (same machine, one intra-op thread)"]
STUB = ["environment (SimEnv / SimTabEnv, seeded sampler)"]
ASSUMPTIONS = ["XLA thread configuration and platform are held fixed between twins (the property assumes the same machine)",
               "identically initialised function approximators = built by the same constructor calls from the same seed in each interpreter"]
TIERS = {"quick": {"runs": 32}, "thorough": {"runs": 320}}
REQUIRED = ["twin_pairs_equal", "different_seed_differs"]
REQUIRED_QUICK = REQUIRED
SHRINK_LISTS = []
SHRINK_INTS = []
DIGEST_STABLE = False  # the violation class must reproduce in a fresh process, the twin digests need not
TRAIN = ["ddpg", "td3", "td3_lap", "sac", "dqn", "nature_dqn", "ddqn", "ddqn_per", "td7", "mrq", "pets"]
TAB = ["q_learning", "sarsa", "double_q_learning", "monte_carlo", "dynaq"]


def routines():
    extra = [a for a in ("reinforce", "actor_critic", "a2c", "ppo", "cmaes") if a in trainsim.ADAPTERS]
    return [("train", a) for a in TRAIN + extra] + [("tab", a) for a in TAB]


def make_plan(rng, tier, index):
    rs = routines()
    kind, name = rs[index % len(rs)]
    if kind == "train":
        plan = trainplan.base_plan(rng, PROPERTY, [], name, T=rng.choice([16, 24]) if name not in ("pets",) else 10)
        plan["engine"] = "train"
        plan["logger"] = True
        plan["memory_logger"] = True
        plan["monitor"] = "final"
        c = plan["cfg"]
        if "learning_starts" in c and name not in ("mrq", "pets"):
            c["learning_starts"] = rng.choice([2, 4, 6])
        if "exploration_noise" in c:
            c["exploration_noise"] = rng.choice([0.1, 0.2])
        if "buffer_size" in c:
            c["buffer_size"] = max(c["buffer_size"], 8)
    else:
        plan = tabsim.make_tab_plan(rng, name, rng.choice([10, 25]))
        plan["epsilon"] = rng.choice([0.3, 0.5])
        plan.update(check=PROPERTY, clauses=[], engine="tab")
    plan["hashseeds"] = [rng.choice(["0", "1"]), rng.choice(["7", "42", "123", "999"])]  # fixed values: a violation must replay
    return plan


def normalise(plan):
    return plan


def execute_inner(plan):
    """Runs in the twin child."""
    if plan["engine"] == "tab":
        run = tabsim.TabRun(plan)
        run.res.log.keep = 20000
        return run.run()
    run = trainsim.TrainRun(plan)
    run.res.log.keep = 20000
    return run.run()


def child(plan, variant, hashseed, scratch, tag):
    pp = os.path.join(scratch, f"plan_{tag}.json")
    op = os.path.join(scratch, f"out_{tag}.json")
    with open(pp, "w") as f:
        json.dump(plan, f)
    env = dict(os.environ)
    env["PYTHONHASHSEED"] = hashseed
    cp = subprocess.run([sys.executable, "-m", "rlsim.twin", pp, str(variant), op], cwd=core.VERIF, env=env,
                        capture_output=True, text=True, timeout=900)
    if "TWIN-OK" not in cp.stdout:
        raise core.HarnessError(f"twin child failed: {cp.stdout[-1500:]} {cp.stderr[-2500:]}")
    with open(op) as f:
        return json.load(f)


def execute(plan):
    res = Result()
    site = ("train_" + plan["adapter"]) if plan["engine"] == "train" else ("train_" + plan["algo"])
    scratch = tempfile.mkdtemp(prefix="rlsim_twin_", dir=os.environ.get("VERIF_SCRATCH"))
    try:
        a = child(plan, 0, plan["hashseeds"][0], scratch, "a")
        b = child(plan, 1, plan["hashseeds"][1], scratch, "b")
        p2 = json.loads(json.dumps(plan))
        p2["seed"] = plan["seed"] + 1
        c = child(p2, 2, plan["hashseeds"][0], scratch, "c")
    finally:
        import shutil

        shutil.rmtree(scratch, ignore_errors=True)
    res.log.add("digests", a["digest"], b["digest"], c["digest"])
    for k, v in a["sim"].items():
        res.simt(k, v)
    for v in a["violations"]:
        if v["clause"].endswith(".raise"):
            res.violate("C09.raise", site, v["detail"])
    if a["digest"] != b["digest"] or a["n"] != b["n"]:
        first = next((i for i, (x, y) in enumerate(zip(a["events"], b["events"])) if x != y), min(len(a["events"]), len(b["events"])))
        ea = a["events"][first][:300] if first < len(a["events"]) else "<end>"
        eb = b["events"][first][:300] if first < len(b["events"]) else "<end>"
        res.violate("C09.a", site, f"two runs of the same plan in fresh interpreters (hash seeds {plan['hashseeds']}, different global RNG state and wall clock) diverge at event {first}: {ea} vs {eb}")
    else:
        res.probe("twin_pairs_equal")
        res.fault("hashseed_" + plan["hashseeds"][1])
        res.fault("clock_shift")
        res.fault("global_rng_state")
    if a["digest"] == c["digest"]:
        res.violate("C09.b", site, "a run with a different seed produced the identical event log (the comparison would be vacuous)")
    else:
        res.probe("different_seed_differs")
    res.signature = site + "|" + json.dumps(plan.get("cfg", {k: plan.get(k) for k in ("T", "epsilon", "gamma", "lr")}), sort_keys=True)
    return res
