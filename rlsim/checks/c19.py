"""C19 — saved models and buffers reload to identical state and behaviour.

Plans of kind "buffer": BufferSim twin runs (never-serialised original vs pickle-reloaded
copy at arbitrary prefixes, same continuation).  Plans of kind "module": ModuleSim
(save_pickle / Orbax checkpoint of function approximators at crash points, see modsim).
"""
from rlsim import buffersim

PROPERTY = "C19"
LEVEL = "fault_enumeration"
ENGINE = "BufferSim twins + ModuleSim"
RULE = (
    "Fault = restart: at plan-chosen prefixes of an operation history the buffer is pickled to a file, dropped and reloaded; "
    "a twin that is only dumped (the 'original having been saved') receives the same continuation with an identically seeded / "
    "identically steered generator; every later observable (len, batches bitwise, weights, admissible-start enumerations) must agree, "
    "and the original is still checked against the list reference. All six buffer classes incl. multi-task wrapper; states: empty, "
    "partial, exactly full, wrapped, mid-episode, non-uniform priorities. Module plans: see modsim. Distinct = distinct signatures "
    "of runs in which at least one restart fired."
)
REAL = ["all replay buffer classes", "pickle", "rl_blox.util.serialize.save_pickle/load_pickle", "OrbaxCheckpointer", "StandardLogger checkpoints", "probabilistic_ensemble.restore_checkpoint", "flax.nnx", "orbax"]
STUB = ["numpy.random.Generator (stub or real, identical for both twins)", "SimClock for loggers"]
ASSUMPTIONS = [
    "torn/short files and failing writes are not generated: the property promises nothing about them",
    "bitwise comparison of twins is legitimate because both sides run the same code on the same inputs",
]
TIERS = {"quick": {"runs": 1200}, "thorough": {"runs": 40000}}
REQUIRED = ["reloads_checked", "reload_pickle", "reload_orbax", "reload_standard", "saves_of_different_states", "restart_partial", "restart_wrapped", "restart_exactly_full", "restart_mid_episode", "restart_nonuniform_priorities", "sample_after_restart", "update_after_restart"]
REQUIRED_QUICK = REQUIRED
CHUNK = 300
SHRINK_LISTS = [["ops"]]
SHRINK_INTS = [(["n_tasks"], 0), (["obs_dim"], 0), (["act_dim"], 0)]
CLAUSES = ["twin", "len", "membership", "fields", "stale", "written", "task", "law", "update", "maxprio", "weights", "window", "trunc", "reduced"]


def make_plan(rng, tier, index):
    if index % 16 == 15:
        from rlsim import modsim
        plan = modsim.make_plan(rng)
        plan["check"] = PROPERTY
        return plan
    cls = rng.choice(["ReplayBuffer", "LAP", "PrioritizedReplayBuffer", "SubtrajectoryReplayBuffer", "SubtrajectoryReplayBufferPER"])
    family = "sub" if cls.startswith("Sub") else "flat"
    prio = cls in ("LAP", "PrioritizedReplayBuffer", "SubtrajectoryReplayBufferPER")
    n_tasks = rng.choice([0, 0, 0, 2, 3])
    H = rng.choice([1, 2, 3]) if family == "sub" else 1
    cap = rng.choice([1, 2, 3, 4, 5, 6, 8, 11])
    if family == "sub":
        cap = max(cap, H + 1)
    plan = {
        "check": PROPERTY, "kind": "buffer", "clauses": CLAUSES, "twin": True, "family": family, "cls": cls, "n_tasks": n_tasks,
        "capacity": cap, "horizon": H, "obs_dim": rng.choice([0, 1, 2]), "act_dim": rng.choice([0, 1]),
        "discrete": rng.random() < 0.3, "dtype": rng.choice(["default", "f32"]),
        "gen": "stub" if rng.random() < 0.6 else "real", "gen_seed": rng.randrange(2**31),
    }
    n_ops = rng.choice([8, 15, 30, 50])
    ops = buffersim.gen_ops(rng, family, prio, n_tasks, cap, H, n_ops, cls == "PrioritizedReplayBuffer")
    if prio and rng.random() < 0.5:
        # scenario: the running maximum priority is above every stored priority at the moment of the restart
        # (raised by an update, the raised entries lowered again), then additions and sampling continue
        B = rng.choice([1, 2])
        pre = [["add", 0] for _ in range(rng.randint(2, cap + 1))]
        pre += [["sample", B, [0.5] * B, 0, 1, True, 0.4 if cls == "PrioritizedReplayBuffer" else None], ["update", [rng.choice([20.0, 50.0])]],
                ["sample", B, [0.5] * B, 0, 1, True, 0.4 if cls == "PrioritizedReplayBuffer" else None], ["update", [rng.choice([0.25, 0.5])]],
                ["restart"], ["add", 0], ["law", 2, 2], ["add", 0], ["enum", 2, 1, True]]
        ops = pre + ops
    # make sure restarts land inside the history, not only where the swarm put them
    for _ in range(rng.choice([1, 1, 2, 3])):
        ops.insert(rng.randrange(1, len(ops)), ["restart"])
    plan["ops"] = ops
    return plan


def normalise(plan):
    return plan


def execute(plan):
    if plan.get("kind", "buffer") == "buffer":
        return buffersim.execute(plan)
    from rlsim import modsim
    return modsim.execute(plan)
