"""C08 — prioritised replay samples proportionally and tracks priorities correctly.

BufferSim part: law + bookkeeping on the buffer classes (this file).
Training part (C08.g/i, priorities that flow through the training loops) lives in
TrainSim and is merged in by c08 when the tier runs train plans (plan["kind"]=="train").
"""
from rlsim import buffersim

PROPERTY = "C08"
LEVEL = "exploration"
ENGINE = "BufferSim (+TrainSim recording buffers)"
RULE = (
    "Seeded swarm plans on LAP, PrioritizedReplayBuffer, SubtrajectoryReplayBufferPER and their MultiTaskReplayBuffer wrapper: "
    "histories of add / sample / update_priority (priority vectors: equal, distinct, 1e-3..1e3, 1e-12..1e12) / reset_max / restart / "
    "select-task; the proportional law is decided exactly through the generator seam: an equidistant grid of G variates is fed in "
    "and every transition must be returned G*p_i/sum(p) +-2 times (order-free, valid for any inverse-CDF implementation; stratified "
    "sampling covered by the same grid); bookkeeping (new = current max, update hits exactly the last batch, reset = true max) is "
    "decided through the same law after each operation. Distinct = distinct signatures as in C02 plus priority-pattern faults."
)
REAL = ["LAP", "PrioritizedReplayBuffer", "SubtrajectoryReplayBufferPER", "PriorityBuffer", "MultiTaskReplayBuffer", "lap_priority", "per_priority", "pickle"]
STUB = ["numpy.random.Generator (StubGenerator: integers/uniform/choice answered from planned variates)"]
ASSUMPTIONS = [
    "the pre-image of each index under the sampler is one interval of the uniform variate (true for every inverse-CDF sampler), giving the +-2 count bound",
    "sub-trajectory PER: the law is checked relative to the observed support and only when no admissible start can hide below the grid resolution",
    "duplicate rows in a batch receive equal update values (values are a function of the transition id), so 'the' updated value is unambiguous",
]
TIERS = {"quick": {"runs": 1600}, "thorough": {"runs": 60000}}
REQUIRED = ["training_priority_updates", "priority_monotone_batches", "law_sweeps", "priority_updates", "reset_max", "weights_checked", "priorities_huge_vs_tiny", "priorities_all_equal", "law_after_wrap_stale_priorities", "update_after_restart"]
REQUIRED_QUICK = REQUIRED
CHUNK = 300
SHRINK_LISTS = [["ops"], ["env", "script"]]
SHRINK_INTS = [(["n_tasks"], 0), (["obs_dim"], 0), (["act_dim"], 0)]
CLAUSES = ["law", "update", "maxprio", "weights", "written", "stale", "fields", "task", "window", "trunc"]


def make_plan(rng, tier, index):
    if index % 50 == 49:
        from rlsim import trainplan
        name = ["td3_lap", "ddqn_per", "td7", "mrq"][(index // 50) % 4]
        plan = trainplan.base_plan(rng, PROPERTY, ["C08.g", "C08.i"], name, T=rng.choice([20, 30]))
        plan["kind"] = "train"
        c = plan["cfg"]
        c["lap_alpha"] = rng.choice([0.1, 0.4, 1.0])
        c["lap_min_priority"] = rng.choice([0.01, 0.5, 1.0, 2.0, 5.0])
        c["per_alpha"] = rng.choice([0.3, 0.6, 1.0])
        if name != "mrq":
            c["learning_starts"] = rng.choice([2, 4])
        c["buffer_size"] = max(c["buffer_size"], 16)
        plan["env"]["script"] = [dict(e, rew=[rng.choice([-30.0, -3.0, -1.0, 0.0, 0.5, 2.0, 10.0]) for _ in range(3)]) for e in plan["env"]["script"]]
        return plan
    cls = rng.choice(["LAP", "LAP", "PrioritizedReplayBuffer", "PrioritizedReplayBuffer", "SubtrajectoryReplayBufferPER"])
    family = "sub" if cls.startswith("Sub") else "flat"
    n_tasks = rng.choice([0, 0, 0, 1, 2, 3])
    H = rng.choice([1, 2, 3]) if family == "sub" else 1
    cap = rng.choice([1, 2, 3, 3, 4, 5, 6, 8, 11, 16])
    if family == "sub":
        cap = max(cap, H + 1)
    plan = {
        "check": PROPERTY, "clauses": CLAUSES, "family": family, "cls": cls, "n_tasks": n_tasks,
        "capacity": cap, "horizon": H, "obs_dim": rng.choice([0, 1, 2]), "act_dim": rng.choice([0, 1]),
        "discrete": rng.random() < 0.3, "dtype": "default",
        "gen": "stub", "gen_seed": rng.randrange(2**31),
    }
    n_ops = rng.choice([8, 15, 30, 50])
    plan["ops"] = buffersim.gen_ops(rng, family, True, n_tasks, cap, H, n_ops, cls == "PrioritizedReplayBuffer")
    return plan


def normalise(plan):
    return plan


def execute(plan):
    if plan.get("kind") == "train":
        from rlsim import trainsim
        return trainsim.execute(plan)
    return buffersim.execute(plan)
