"""C14 — tabular learners apply their textbook update to exactly one entry."""
from rlsim import tabsim

PROPERTY = "C14"
LEVEL = "exploration"
ENGINE = "TabularSim"
RULE = ("Seeded plans: learner in {Q-learning, SARSA, double Q-learning, Monte-Carlo, Dyna-Q} x scripted discrete environment (2-5 states, "
        "2-4 actions; scripted, action-independent hence apparently stochastic successors; scripted rewards, start states, episode lengths "
        "and terminated / truncated / both ends) x non-zero random initial tables x learning rate x gamma x epsilon x horizon 1..50 steps. "
        "The real train_* routine runs; a float64 numpy reference learner is fed from the env log only and must be refined by the returned "
        "tables. Distinct = distinct (learner, sizes, horizon, epsilon, gamma, lr, fault kinds).")
REAL = ["train_q_learning", "train_sarsa", "train_double_q_learning", "train_monte_carlo", "train_dynaq", "dynaq.counter_update/model_update/planning", "value_policy"]
STUB = ["environment (SimTabEnv)"]
ASSUMPTIONS = ["float32 learner vs float64 reference agree to 2e-5 over <= 50 updates",
               "SARSA with epsilon>0 and double Q-learning are decided on short histories by enumerating the unobservable coin outcomes"]
TIERS = {"quick": {"runs": 400}, "thorough": {"runs": 12000}}
REQUIRED = ["q_learning_histories", "sarsa_greedy_histories", "sarsa_single_steps", "double_q_histories", "double_q_single_step_distinct_successor",
            "monte_carlo_histories", "monte_carlo_repeated_visits", "dynaq_direct_histories", "dynaq_model_histories", "dynaq_training_model_histories", "terminated_step", "truncated_step", "stochastic_successor"]
REQUIRED_QUICK = REQUIRED
SHRINK_LISTS = [["script"]]
SHRINK_INTS = [(["T"], 1)]
CLAUSES = ["C14", "C11"]
ALGOS = ["q_learning", "sarsa", "double_q_learning", "monte_carlo", "dynaq"]


def make_plan(rng, tier, index):
    algo = ALGOS[index % len(ALGOS)]
    T = None
    if algo == "double_q_learning":
        T = rng.choice([1, 1, 1, 2, 3, 5, 8])
    if algo == "sarsa" and rng.random() < 0.4:
        T = 1
    plan = tabsim.make_tab_plan(rng, algo, T)
    if algo == "sarsa" and T == 1:
        plan["epsilon"] = rng.choice([0.3, 1.0])
    if algo == "dynaq" and plan["n_planning_steps"] == 1:
        plan["T"] = 1
    plan.update(check=PROPERTY, clauses=CLAUSES)
    return plan


def normalise(plan):
    plan["T"] = max(1, plan["T"])
    if not plan["script"]:
        plan["script"] = [{"len": 3, "end": "trunc"}]
    return plan


def execute(plan):
    return tabsim.execute(plan)
