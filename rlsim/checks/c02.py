"""C02 — replay buffer is a faithful fixed-capacity FIFO of whole transitions."""
from rlsim import buffersim

PROPERTY = "C02"
LEVEL = "exploration"
ENGINE = "BufferSim"
RULE = (
    "Seeded swarm plans: class in {ReplayBuffer, LAP, PrioritizedReplayBuffer} x optional MultiTaskReplayBuffer(1-3 tasks) x "
    "capacity 1-16 x field shapes (scalar / vector) x dtypes x stub-or-real generator; 5-70 operations drawn from "
    "add / sample / exhaustive enumeration through the generator seam / select-task (valid and invalid) / len / pickle restart. "
    "Oracle after every operation against a list reference. A run is non-trivial if it fired a fault or reach probe; "
    "distinct = distinct (class, tasks, capacity, shapes, generator, fill class, laps, op-kind set, fault-kind set) signatures."
)
REAL = ["rl_blox.blox.replay_buffer.ReplayBuffer", "LAP", "PrioritizedReplayBuffer", "MultiTaskReplayBuffer", "PriorityBuffer", "pickle", "jax.numpy.asarray"]
STUB = ["numpy.random.Generator (StubGenerator in stub plans; real seeded Generator in the others)"]
ASSUMPTIONS = [
    "buffers call only integers/uniform/choice on the generator they are handed",
    "jax default 32-bit mode: tags are exact in float32/int32",
    "an exception other than AttributeError/TypeError/NameError/ImportError raised by an operation whose precondition holds is a violation; those four are harness errors",
]
TIERS = {"quick": {"runs": 1600}, "thorough": {"runs": 60000}}
REQUIRED = ["enumerations", "exact_fill", "first_wrap", "multi_lap", "capacity_1", "batch_gt_len", "invalid_task_id", "restart_wrapped"]
REQUIRED_QUICK = REQUIRED
SHRINK_LISTS = [["ops"]]
SHRINK_INTS = [(["capacity"], 1), (["n_tasks"], 0), (["obs_dim"], 0), (["act_dim"], 0)]
CLAUSES = ["len", "membership", "fields", "stale", "written", "task"]


def make_plan(rng, tier, index):
    cls = rng.choice(["ReplayBuffer", "ReplayBuffer", "LAP", "PrioritizedReplayBuffer"])
    n_tasks = rng.choice([0, 0, 0, 1, 2, 3])
    cap = rng.choice([1, 1, 2, 2, 3, 3, 4, 5, 6, 8, 11, 16])
    plan = {
        "check": PROPERTY, "clauses": CLAUSES, "family": "flat", "cls": cls, "n_tasks": n_tasks,
        "capacity": cap, "obs_dim": rng.choice([0, 1, 2, 3]), "act_dim": rng.choice([0, 1, 2]),
        "discrete": rng.random() < 0.3, "dtype": rng.choice(["default", "default", "f32"]),
        "gen": "stub" if rng.random() < 0.8 else "real", "gen_seed": rng.randrange(2**31),
    }
    n_ops = rng.choice([5, 10, 20, 40, 70])
    ops = buffersim.gen_ops(rng, "flat", False, n_tasks, cap, 1, n_ops, cls == "PrioritizedReplayBuffer")
    plan["ops"] = [o for o in ops if o[0] not in ("update", "reset_max", "law")]
    return plan


def normalise(plan):
    return plan


def execute(plan):
    return buffersim.execute(plan)
