"""C06 — target networks follow the Polyak / hard-copy law, only at update points."""
from rlsim import trainplan, trainsim

PROPERTY = "C06"
LEVEL = "exploration"
ENGINE = "TrainSim"
RULE = ("Seeded plans: routine with target networks x tau in {0, 0.005, 0.3, 1} x delays 1-7 x scripted environment x targets supplied by the "
        "harness or created by the routine x resume. Target / online leaves are snapshotted at every env event and logged update: on a "
        "scheduled soft update T_new = tau*O_new + (1-tau)*T_old (4e-6 relative; exact for tau in {0,1}); on a hard update T_new == source "
        "bitwise (TD7 chain link by link); on every other interval T is bitwise unchanged; no aliasing. "
        "Additional plans (indices beyond the earlier tier sizes): supplied target networks whose parameters DIFFER from the online networks (scaled clones, as after a restore from an older state), optionally only one of the two targets supplied, fresh call or resume chain - a spurious copy or re-clone of a target is only visible when target != online. " "Distinct = distinct (adapter, configuration vector, fault kinds).")
REAL = ["train_* routines", "soft_target_net_update / hard_target_net_update", "nnx.clone", "optimisers"]
STUB = ["environment (SimEnv)", "sampler", "logger (ProbeLogger)"]
ASSUMPTIONS = ["targets created inside a routine are observable from their first record_epoch; earlier only frame conditions on harness-held modules apply",
               "float32 Polyak recomputation agrees with the library to 4e-6 relative"]
TIERS = {"quick": {"runs": 162}, "thorough": {"runs": 2400}}
REQUIRED = ["soft_updates_checked", "hard_updates_checked", "tau_0", "tau_1", "online_unchanged_by_target_update", "module_primitive_updates"]
REQUIRED_QUICK = ["soft_updates_checked", "hard_updates_checked"]
CHUNK = 24  # TrainSim plans per fresh worker process
SHRINK_LISTS = [["env", "script"], ["ops"]]
SHRINK_INTS = []
CLAUSES = ["C06"]
ADAPTERS = ["ddpg", "td3", "td3_lap", "sac", "nature_dqn", "ddqn", "ddqn_per", "td7", "mrq"]


def _T(rng, tier, name, short):
    """Run length: thorough tier adds a share of long runs (deeper bound) for the cheaper routines."""
    if tier == "thorough" and name not in ("pets", "mrq", "td7", "ppo", "cmaes") and rng.random() < 0.15:
        return rng.choice([80, 150])
    return rng.choice(short)


TWIN = ["ddpg", "td3", "td3_lap", "sac", "nature_dqn", "ddqn", "ddqn_per", "td7"]


def make_module_plan(rng):
    """Target-update primitives on every module type the repository builds: histories of online optimiser steps, soft
    updates (tau from {0, 0.005, 0.3, 1}) and hard updates on an online/target pair; the recurrence is applied per leaf."""
    from rlsim import modsim
    ops = []
    for _ in range(rng.choice([4, 8, 14])):
        r = rng.random()
        if r < 0.4:
            ops.append(["step", rng.choice([1e-3, 1e-2, 0.1])])
        elif r < 0.85:
            ops.append(["soft", rng.choice([0.0, 0.005, 0.3, 1.0, 0.5])])
        else:
            ops.append(["hard"])
    return {"kind": "modules", "module": rng.choice(modsim.KINDS), "seed": rng.randrange(1000), "hidden": rng.choice([2, 3]), "ops": ops, "check": PROPERTY}


def execute_modules(plan):
    import numpy as np
    from flax import nnx

    from rlsim import modsim
    from rlsim.core import Result, raised_by_code_under_test
    from rlsim.monitors import leaves_close, polyak
    from rlsim.probes import state_leaves
    from rl_blox.blox.target_net import hard_target_net_update, soft_target_net_update

    res = Result()
    site = plan["module"]
    online, _ = modsim.build(plan["module"], plan["seed"], plan["hidden"])
    target = nnx.clone(online)
    ids = lambda m: {id(v) for _, v in nnx.iter_graph(m) if isinstance(v, nnx.Variable)}
    if ids(online) & ids(target):
        res.violate("C06.e", site, "nnx.clone shares Variables with the original")
    for i, op in enumerate(plan["ops"]):
        o0, t0 = state_leaves(online), state_leaves(target)
        try:
            if op[0] == "step":
                modsim.sgd_step(online, op[1])
            elif op[0] == "soft":
                soft_target_net_update(online, target, op[1])
            else:
                hard_target_net_update(online, target)
        except Exception as e:
            if not raised_by_code_under_test(e):
                raise
            res.violate("C06.raise", site, f"op {i} {op}: {type(e).__name__}: {e}")
            return res
        o1, t1 = state_leaves(online), state_leaves(target)
        res.log.add(i, op, [a for _, a in t1])
        if op[0] == "step":
            if any(not np.array_equal(x, y) for (_, x), (_, y) in zip(t0, t1)):
                res.violate("C06.c", site, f"op {i}: the target changed although only the online network was trained (shared storage?)")
                return res
            continue
        if any(not np.array_equal(x, y) for (_, x), (_, y) in zip(o0, o1)):
            res.violate("C06.d", site, f"op {i} {op}: the target update changed the online network")
            return res
        if op[0] == "hard" or op[1] == 1.0:
            ok = all(np.array_equal(x, y) for (_, x), (_, y) in zip(o1, t1))
        elif op[1] == 0.0:
            ok = all(np.array_equal(x, y) for (_, x), (_, y) in zip(t0, t1))
        else:
            ok, _ = leaves_close(polyak(o1, t0, op[1]), t1, rtol=4e-6, atol=1e-9)
        if not ok:
            res.violate("C06.a" if op[0] == "soft" else "C06.b", site, f"op {i} {op}: target leaves do not follow {'tau*online + (1-tau)*target' if op[0] == 'soft' else 'target := online'} for module type {plan['module']}")
            return res
        res.probe("soft_updates_checked" if op[0] == "soft" else "hard_updates_checked")
        res.probe("module_primitive_updates")
        if op[0] == "soft" and op[1] == 0.0:
            res.fault("tau_0")
        if op[0] == "soft" and op[1] == 1.0:
            res.fault("tau_1")
    res.signature = f"modules|{plan['module']}|{plan['hidden']}|{len(plan['ops'])}"
    return res


BASE = {"quick": 126, "thorough": 2000}  # plans below these indices are exactly those of the earlier tiers (additive extension)


def make_supplied_target_plan(rng):
    """Supplied targets that differ from the online networks (restore from an older state), optionally only one of the two
    supplied; fresh call or resume chain. A spurious copy / re-clone of a target is only visible when target != online."""
    name = rng.choice(["ddpg", "td3", "td3", "td3_lap", "sac", "nature_dqn", "ddqn", "ddqn", "ddqn_per"])
    plan = trainplan.base_plan(rng, PROPERTY, CLAUSES, name, T=rng.choice([14, 20, 28]))
    plan["monitor"] = True
    plan["logger"] = True
    plan["supply_targets"] = True
    plan["perturb_targets"] = rng.choice([0.5, 0.9, 1.5])
    c = plan["cfg"]
    c["learning_starts"] = rng.choice([2, 4, 6])
    if "batch_size" in c and name in ("nature_dqn", "ddqn", "ddqn_per"):
        c["batch_size"] = rng.choice([3, 4])
        c["target_update_frequency"] = rng.choice([1, 2, 3, 5])
    if name in ("ddpg", "td3", "td3_lap"):
        plan["supply_only"] = rng.choice([None, "q", "policy"])
    if rng.random() < 0.4 and trainsim.ADAPTERS[name].has_global_step:
        T = plan["chain"][0]["total_timesteps"]
        cut = rng.randint(max(2, T // 3), T - 2)
        plan["chain"] = [{"total_timesteps": cut, "total_episodes": None}, {"total_timesteps": T, "total_episodes": None}]
    return plan


def make_plan(rng, tier, index):
    if index >= BASE.get(tier, 10**9):
        return make_supplied_target_plan(rng)
    if index % 7 == 5:
        return make_module_plan(rng)
    if index % 7 == 6:
        # C06.d twin: the same plan with target updates neutralised (tau=0 / huge delay); the ONLINE networks right
        # after the first target update must be bit-identical in both runs (the update must not touch them)
        name = TWIN[(index // 7) % len(TWIN)]
        plan = trainplan.base_plan(rng, PROPERTY, [], name, T=rng.choice([14, 20]))
        plan["monitor"] = True
        plan["logger"] = True
        plan["supply_targets"] = True  # targets must be observable from the first event on
        plan["kind"] = "twin_online"
        c = plan["cfg"]
        c["learning_starts"] = rng.choice([2, 3, 5])
        if "tau" in c:
            c["tau"] = rng.choice([0.005, 0.3, 1.0])
        if "use_checkpoints" in c:
            c["use_checkpoints"] = False
            c["target_delay"] = rng.choice([1, 2, 3])
        if "target_update_frequency" in c:
            c["target_update_frequency"] = rng.choice([2, 3, 5])
            c["batch_size"] = 2
        return plan
    name = ADAPTERS[index % len(ADAPTERS)]
    plan = trainplan.base_plan(rng, PROPERTY, CLAUSES, name, T=_T(rng, tier, name, [12, 20, 30]))
    plan["monitor"] = True
    plan["logger"] = True
    plan["supply_targets"] = rng.random() < 0.6
    if name in ("nature_dqn", "ddqn", "ddqn_per") and rng.random() < 0.6:
        # boundary: target-copy period that is not a multiple of the online-update period (copy points without an online update)
        uf = rng.choice([2, 3])
        plan["cfg"]["update_frequency"] = uf
        plan["cfg"]["target_update_frequency"] = rng.choice([x for x in (2, 3, 5, 7) if x % uf])
        plan["cfg"]["learning_starts"] = rng.choice([0, 2])
    if rng.random() < (0.7 if name in ("mrq", "td7") else 0.4) and trainsim.ADAPTERS[name].has_global_step:
        # resume: the update cadence must continue from the returned counter, not restart
        T = plan["chain"][0]["total_timesteps"]
        cut = rng.randint(max(2, T // 3), T - 2)
        plan["chain"] = [{"total_timesteps": cut, "total_episodes": None}, {"total_timesteps": T, "total_episodes": None}]
    return plan


def normalise(plan):
    return trainplan.sanitize(plan)


def is_target(name):
    return name.endswith("_target") or name.startswith("fixed_") or "checkpoint" in name


def execute(plan):
    if plan.get("kind") == "modules":
        return execute_modules(plan)
    if plan.get("kind") != "twin_online":
        return trainsim.execute(plan)
    import json

    from rlsim.core import Result
    from rlsim.monitors import changed_from

    res = Result()
    site = "train_" + plan["adapter"]
    a = trainsim.TrainRun(json.loads(json.dumps(plan)))
    ra = a.run()
    pb = json.loads(json.dumps(plan))
    c = pb["cfg"]
    if "tau" in c and plan["adapter"] != "td7":
        c["tau"] = 0.0
    if plan["adapter"] == "td7":
        c["target_delay"] = 10**6
    if "target_update_frequency" in c:
        c["target_update_frequency"] = 10**6
    b = trainsim.TrainRun(pb)
    rb = b.run()
    for r in (ra, rb):
        for v in r.violations:
            res.violate("C06.raise", site, v["detail"])
    res.simt("env_steps", a.env.n_steps + b.env.n_steps)
    sa, sb = a.snaps, b.snaps
    j = next((i for i in range(1, min(len(sa), len(sb))) if any(is_target(n) for n in changed_from(sa[i - 1], sa[i]))), None)
    res.log.add("first_target_update", j, [s.label for s in sa[:40]])
    if j is None:
        res.probe("twin_without_target_update")
    elif sa[j].label != sb[j].label or sa[j].k != sb[j].k:
        res.unchecked += 1
    else:
        online = [n for n in sa[j].leaves if not is_target(n) and n in sb[j].leaves]
        diff = [n for n in online if sa[j].h(n) != sb[j].h(n)]
        if diff:
            res.violate("C06.d", site, f"iteration {sa[j].k}: with the target update neutralised (tau=0 / no sync) the online components {diff} differ right after the first target update; the update must leave the online networks unchanged")
        else:
            res.probe("online_unchanged_by_target_update")
    res.signature = f"twin|{plan['adapter']}|{json.dumps(plan['cfg'], sort_keys=True)}"
    return res
