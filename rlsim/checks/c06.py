"""C06 — target networks follow the Polyak / hard-copy law, only at update points."""
from rlsim import trainplan, trainsim

PROPERTY = "C06"
LEVEL = "exploration"
ENGINE = "TrainSim"
RULE = ("Seeded plans: routine with target networks x tau in {0, 0.005, 0.3, 1} x delays 1-7 x scripted environment x targets supplied by the "
        "harness or created by the routine x resume. Target / online leaves are snapshotted at every env event and logged update: on a "
        "scheduled soft update T_new = tau*O_new + (1-tau)*T_old (4e-6 relative; exact for tau in {0,1}); on a hard update T_new == source "
        "bitwise (TD7 chain link by link); on every other interval T is bitwise unchanged; no aliasing. "
        "Distinct = distinct (adapter, configuration vector, fault kinds).")
REAL = ["train_* routines", "soft_target_net_update / hard_target_net_update", "nnx.clone", "optimisers"]
STUB = ["environment (SimEnv)", "sampler", "logger (ProbeLogger)"]
ASSUMPTIONS = ["targets created inside a routine are observable from their first record_epoch; earlier only frame conditions on harness-held modules apply",
               "float32 Polyak recomputation agrees with the library to 4e-6 relative"]
TIERS = {"quick": {"runs": 63}, "thorough": {"runs": 1500}}
REQUIRED = ["soft_updates_checked", "hard_updates_checked", "tau_0", "tau_1"]
REQUIRED_QUICK = ["soft_updates_checked", "hard_updates_checked"]
SHRINK_LISTS = [["env", "script"]]
SHRINK_INTS = []
CLAUSES = ["C06"]
ADAPTERS = ["ddpg", "td3", "td3_lap", "sac", "nature_dqn", "ddqn", "ddqn_per", "td7", "mrq"]


def make_plan(rng, tier, index):
    name = ADAPTERS[index % len(ADAPTERS)]
    plan = trainplan.base_plan(rng, PROPERTY, CLAUSES, name, T=rng.choice([12, 20, 30]))
    plan["monitor"] = True
    plan["logger"] = True
    plan["supply_targets"] = rng.random() < 0.6
    return plan


def normalise(plan):
    return plan


def execute(plan):
    return trainsim.execute(plan)
