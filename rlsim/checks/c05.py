"""C05 — each update changes only the component it trains (event granularity)."""
from rlsim import trainplan, trainsim

PROPERTY = "C05"
LEVEL = "exploration"
ENGINE = "TrainSim"
RULE = ("Seeded plans: training routine x scripted environment x delays 1-4 (most iterations are not actor/target iterations) x "
        "gradient_steps 1-3 x warm-up. Every module and optimiser the harness built, or first saw through record_epoch, is hashed at every "
        "env event and at every logged update; between two consecutive points the set of changed components must be a subset of the "
        "components the documented schedule (DESIGN Appendix A) trains at that event, and optimiser step counters must advance by exactly "
        "the documented number. Distinct = distinct (adapter, configuration vector, fault kinds).")
REAL = ["train_* routines incl. all update functions", "optimisers", "target updates", "buffers"]
STUB = ["environment (SimEnv)", "sampler", "logger (ProbeLogger, receives live modules)"]
ASSUMPTIONS = ["event granularity only: contamination between two routines scheduled on the same event is visible only through optimiser step counters",
               "logger keys listed in the routines' docstrings mark the end of each update"]
TIERS = {"quick": {"runs": 144}, "thorough": {"runs": 2000}}
REQUIRED = ["update_events_checked", "optimizer_steps_exact", "warmup_iterations_observed"]
REQUIRED_QUICK = REQUIRED
CHUNK = 24  # TrainSim plans per fresh worker process
SHRINK_LISTS = [["env", "script"]]
SHRINK_INTS = []
CLAUSES = ["C05", "C11.d"]
ADAPTERS = ["ddpg", "td3", "td3_lap", "sac", "dqn", "nature_dqn", "ddqn", "ddqn_per", "td7", "mrq", "pets", "reinforce", "actor_critic", "a2c", "ppo", "cmaes"]


def _T(rng, tier, name, short):
    """Run length: thorough tier adds a share of long runs (deeper bound) for the cheaper routines."""
    if tier == "thorough" and name not in ("pets", "mrq", "td7", "ppo", "cmaes") and rng.random() < 0.15:
        return rng.choice([80, 150])
    return rng.choice(short)


def make_plan(rng, tier, index):
    name = ADAPTERS[index % len(ADAPTERS)]
    plan = trainplan.base_plan(rng, PROPERTY, CLAUSES, name, T=_T(rng, tier, name, [12, 20, 30]) if name != "pets" else rng.choice([8, 12]))
    plan["monitor"] = True
    plan["logger"] = rng.random() < 0.85
    return plan


def normalise(plan):
    return trainplan.sanitize(plan)


def execute(plan):
    return trainsim.execute(plan)
