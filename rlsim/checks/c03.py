"""C03 — critic losses implement their documented targets per sample (NARROW SLICE:
terminated => successor irrelevant; batch-order invariance), by fault injection inside
simulated training (twin runs)."""
import json

import numpy as np

from rlsim import trainplan, trainsim
from rlsim.core import Result

PROPERTY = "C03"
LEVEL = "fault_enumeration"
ENGINE = "TrainSim twin runs with fault-injecting replay buffers"
RULE = ("Seeded plans: critic family (DQN, Nature-DQN, DDQN, PER-DDQN, DDPG, TD3, TD3+LAP, SAC) x scripted environment with many terminated "
        "episodes x fault in {corrupt_terminated: overwrite next_observation of every stored terminated transition with another finite "
        "stored observation before every sample; permute: reorder the rows of one returned batch; corrupt_nonterminated: control fault}. "
        "Each plan is executed clean and faulted in the same process. corrupt_terminated: the complete trace (every logged statistic, "
        "every action the env received, final hashes of all modules and optimisers) must be bit-identical; permute: logged loss and q mean "
        "of that update agree to 1e-5*(1+|x|); the control fault must change the trace (reach probe). "
        "Distinct = distinct (routine, configuration, fault kind, fired?).")
REAL = ["train_* routines", "all critic losses (dqn, nature_dqn, ddqn, ddqn_per, ddpg, td3, td3_lap, sac)", "replay buffers (dynamic subclass adds the fault)"]
STUB = ["environment (SimEnv)"]
ASSUMPTIONS = ["NARROW SLICE: equality of loss values with a float64 reference, bootstrap choice, zero gradient into targets and batch size 1 are pure per-call clauses and are NOT decided",
               "replacement successors are finite stored observations, so 0*x stays 0",
               "TD7 and MR.Q representation losses legitimately read the successor and are excluded here"]
TIERS = {"quick": {"runs": 48}, "thorough": {"runs": 1200}}
REQUIRED = ["terminated_successor_irrelevant", "corrupted_rows_sampled", "control_fault_changes_trace", "batch_order_irrelevant"]
REQUIRED_QUICK = REQUIRED
CHUNK = 24  # TrainSim plans per fresh worker process
SHRINK_LISTS = [["env", "script"]]
SHRINK_INTS = []
ADAPTERS = ["dqn", "nature_dqn", "ddqn", "ddqn_per", "ddpg", "td3", "td3_lap", "sac"]
UNIFORM = ["dqn", "nature_dqn", "ddqn", "ddpg", "td3"]  # SAC draws positional noise inside the loss: order invariance holds only in distribution


def make_plan(rng, tier, index):
    kind = ["corrupt_terminated", "corrupt_terminated", "permute", "corrupt_nonterminated"][index % 4]
    names = UNIFORM if kind == "permute" else ADAPTERS
    name = names[(index // 4) % len(names)]
    plan = trainplan.base_plan(rng, PROPERTY, [], name, T=rng.choice([24, 32]))
    plan["env"]["script"] = trainplan.make_script(rng, 40, style=rng.choice(["short", "mixed", "one_step"]))
    for e in plan["env"]["script"]:
        if rng.random() < 0.8:
            e["end"] = "term"
    c = plan["cfg"]
    c["learning_starts"] = rng.choice([3, 5, 6])
    c["buffer_size"] = rng.choice([16, 64, 1000])
    if "exploration_noise" in c:
        c["exploration_noise"] = rng.choice([0.0, 0.1])
    c["gamma"] = rng.choice([0.5, 0.9, 0.99])
    if kind == "permute" and "noise_clip" in c:
        c["noise_clip"] = 0.0  # TD3 target smoothing noise is positional; with noise_clip=0 the target is a function of the row alone
    plan["logger"] = True
    plan["monitor"] = "final"
    plan["fault"] = {"kind": kind, "shift": rng.choice([2, 3, 5]), "from_call": rng.choice([1, 1, 2, 4]), "at_call": rng.choice([1, 2, 3, 5]), "perm_seed": rng.randrange(1000)}
    return plan


def normalise(plan):
    return plan


def trace(run):
    """Comparable trace of a run: logged stats, env actions, final hashes."""
    out = []
    lg = run.logger
    for k, ev in run.log_events:
        if ev[0] == "stat":
            out.append(("stat", k, ev[1], np.asarray(ev[2], dtype=np.float64).tobytes().hex()[:64], float(np.asarray(ev[2]).reshape(-1)[0]) if np.asarray(ev[2]).size else 0.0))
    for s in run.env.steps():
        out.append(("act", s["i"], np.asarray(s["a"], dtype=np.float64).tobytes().hex()))
    for sn in run.snaps[-1:]:
        for n in sorted(sn.leaves):
            out.append(("final", n, sn.h(n)))
    return out


def execute(plan):
    res = Result()
    site = "train_" + plan["adapter"]
    clean = json.loads(json.dumps(plan))
    clean.pop("faults", None)
    a = trainsim.TrainRun(clean)
    ra = a.run()
    faulted = json.loads(json.dumps(plan))
    faulted["faults"] = {"buffer": plan["fault"]}
    b = trainsim.TrainRun(faulted)
    rb = b.run()
    for r in (ra, rb):
        for v in r.violations:
            res.violate("C03.raise", site, v["detail"])
    ta, tb = trace(a), trace(b)
    res.log.add("traces", len(ta), len(tb), [t[:4] for t in ta if t[0] != "act"][:400])
    st = b.fault_state
    kind = plan["fault"]["kind"]
    res.simt("env_steps", a.env.n_steps + b.env.n_steps)
    first = next((i for i, (x, y) in enumerate(zip(ta, tb)) if x[:4] != y[:4]), None)
    if first is None and len(ta) != len(tb):
        first = min(len(ta), len(tb))
    if kind == "corrupt_terminated":
        if st["fired"]:
            res.fault("store_corrupt_terminated", st["fired"])
        if st["sampled_faulted_rows"]:
            res.probe("corrupted_rows_sampled", st["sampled_faulted_rows"])
        if first is not None:
            res.violate("C03.a", site, f"replacing the successor observation of terminated transitions changed training: first difference at trace item {first}: clean {ta[first][:3] + ta[first][4:]} vs faulted {tb[first][:3] + tb[first][4:]} ({st['sampled_faulted_rows']} corrupted rows were sampled)")
        elif st["sampled_faulted_rows"]:
            res.probe("terminated_successor_irrelevant")
    elif kind == "corrupt_nonterminated":
        if st["fired"] and first is not None:
            res.probe("control_fault_changes_trace")
        elif st["fired"]:
            res.probe("control_fault_without_effect")
    elif kind == "permute":
        if st["fired"]:
            res.fault("batch_permuted")
            k = st["at_iter"]
            sa = [t for t in ta if t[0] == "stat" and t[1] == k and t[2] in ("q loss", "q mean", "weighted loss")]
            sb = [t for t in tb if t[0] == "stat" and t[1] == k and t[2] in ("q loss", "q mean", "weighted loss")]
            # only the first gradient step of that iteration used the permuted batch
            n_marker = 0
            ok = True
            for x, y in zip(sa, sb):
                if x[2] == "q loss":
                    n_marker += 1
                if n_marker > 1:
                    break
                tol = 1e-5 * (1 + abs(x[4]))
                if not (abs(x[4] - y[4]) <= tol):
                    res.violate("C03.b", site, f"permuting the rows of the batch changed '{x[2]}' of that update: {x[4]!r} vs {y[4]!r}")
                    ok = False
                    break
            if ok and sa:
                res.probe("batch_order_irrelevant")
    res.signature = f"{plan['adapter']}|{kind}|{json.dumps(plan['cfg'], sort_keys=True)}|{bool(st['fired'])}"
    return res
