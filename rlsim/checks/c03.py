"""C03 — critic losses implement their documented targets per sample, decided inside simulated training:
(1) fault injection with twin runs (terminated => successor irrelevant; batch-order invariance);
(2) refinement: every update of a simulated training history against a float64 reference model (rlsim/refine.py)."""
import json

import numpy as np

from rlsim import trainplan, trainsim
from rlsim.core import Result

PROPERTY = "C03"
LEVEL = "fault_enumeration"
ENGINE = "TrainSim twin runs with fault-injecting replay buffers + per-update refinement against a float64 reference model"
RULE = ("Seeded plans: critic family (DQN, Nature-DQN, DDQN, PER-DDQN, DDPG, TD3, TD3+LAP, SAC) x scripted environment with many terminated "
        "episodes x fault in {corrupt_terminated: overwrite next_observation of every stored terminated transition with another finite "
        "stored observation before every sample; permute: reorder the rows of one returned batch; corrupt_nonterminated: control fault}. "
        "Each plan is executed clean and faulted in the same process. corrupt_terminated: the complete trace (every logged statistic, "
        "every action the env received, final hashes of all modules and optimisers) must be bit-identical; permute: logged loss and q mean "
        "of that update agree to 1e-5*(1+|x|); the control fault must change the trace (reach probe). "
        "Value plans (DQN, Nature-DQN, DDQN, PER-DDQN, DDPG, TD3, TD3+LAP, SAC, TD7, MR.Q): one simulated training run; at every sample_batch the "
        "returned batch is copied and all networks are cloned; the statistics the routine logs for that update (q loss / weighted loss, q mean, "
        "mean |TD|, TD7 embedding loss and tracked value range, per-sample |TD| handed to lap_priority) must equal the reference "
        "y = r + (1-terminated)*gamma*bootstrap (max / double-Q selection / clipped double-Q minimum / TD7 value clipping with the reported range / "
        "MR.Q n-step return with residual discount and reward scaling / SAC entropy term with the action the routine drew, read from a probe on the target critic, and alpha as it was at that instant) evaluated with float64 forward passes through the clones; tolerance "
        "2e-5*(1+|x|) + 16*|float32 reference - float64 reference| + float32 rounding of the forward-pass magnitude. "
        "TD7 value plans additionally replay every SALE update: a clone of the real optimiser makes one step from the pre-update clone of the embedding along the "
        "gradient of mse(zsa(o,a), stop_gradient(zs(o'))) and the result must equal the embedding as it was at the next sample (entries with |g| > 1e-4, 3 % of the step) - "
        "the representation loss is differentiated against a gradient-stopped target (C03.grad). "
        "Distinct = distinct (routine, configuration, fault kind, fired?).")
REAL = ["train_* routines", "all critic losses (dqn, nature_dqn, ddqn, ddqn_per, ddpg, td3, td3_lap, sac, td7_update_critic, mrq_loss, SALE loss)", "replay buffers (dynamic subclass adds the fault / records samples)",
        "networks (clones of the live modules give the reference its forward passes)"]
STUB = ["environment (SimEnv)"]
ASSUMPTIONS = ["value equality is decided on the states simulated histories reach (batches the seeded sampler returns, networks after earlier updates and target synchronisations), not for all inputs; "
               "the MR.Q encoder loss value, gradients of the critic losses w.r.t. online parameters (only the SALE update is replayed) and batch size 1 are NOT decided",
               "replacement successors are finite stored observations, so 0*x stays 0",
               "TD7 and MR.Q representation losses legitimately read the successor and are excluded from the corrupt_terminated fault",
               "smoothed target actions (TD3 family with noise_clip > 0) are read from a probe on the supplied target critic; an update whose target action cannot be attributed is counted unchecked",
               "MR.Q reward scales are taken as the routine reports them ('reward scale' statistic); TD7 clipping range as reported for the same update, its running-range law is checked separately"]
TIERS = {"quick": {"runs": 108}, "thorough": {"runs": 2400}}
REQUIRED = ["terminated_successor_irrelevant", "corrupted_rows_sampled", "control_fault_changes_trace", "batch_order_irrelevant",
            "update_matches_reference:q_loss", "update_matches_reference:q_mean", "td_errors_match_reference", "update_on_mixed_terminated_batch",
            "update_with_active_value_clipping", "update_with_reward_scale_not_one", "update_matches_reference:embedding_loss", "update_matches_reference:weighted_loss",
            "double_q_selection_differs_from_target_argmax", "sale_update_follows_reference_gradient"]
REQUIRED_QUICK = ["terminated_successor_irrelevant", "corrupted_rows_sampled", "control_fault_changes_trace", "batch_order_irrelevant",
                  "update_matches_reference:q_loss", "update_matches_reference:q_mean", "td_errors_match_reference", "update_on_mixed_terminated_batch"]
CHUNK = 24  # TrainSim plans per fresh worker process
SHRINK_LISTS = [["env", "script"]]
SHRINK_INTS = []
ADAPTERS = ["dqn", "nature_dqn", "ddqn", "ddqn_per", "ddpg", "td3", "td3_lap", "sac"]
UNIFORM = ["dqn", "nature_dqn", "ddqn", "ddpg", "td3"]  # SAC draws positional noise inside the loss: order invariance holds only in distribution


VALUE = ["dqn", "nature_dqn", "ddqn", "ddqn_per", "ddpg", "td3", "td3_lap", "td7", "mrq", "sac", "td7", "mrq"]


def make_plan(rng, tier, index):
    kind = ["corrupt_terminated", "value", "permute", "corrupt_nonterminated", "value", "corrupt_terminated"][index % 6]
    names = UNIFORM if kind == "permute" else VALUE if kind == "value" else ADAPTERS
    name = names[(index // 6) % len(names)]
    if kind == "value":
        return value_plan(rng, name)
    plan = trainplan.base_plan(rng, PROPERTY, [], name, T=rng.choice([24, 32]))
    plan["env"]["script"] = trainplan.make_script(rng, 40, style=rng.choice(["short", "mixed", "one_step"]))
    for e in plan["env"]["script"]:
        if rng.random() < 0.8:
            e["end"] = "term"
    c = plan["cfg"]
    c["learning_starts"] = rng.choice([3, 5, 6])
    c["buffer_size"] = rng.choice([16, 64, 1000])
    if "exploration_noise" in c:
        c["exploration_noise"] = rng.choice([0.0, 0.1])
    c["gamma"] = rng.choice([0.5, 0.9, 0.99])
    if kind == "permute" and "noise_clip" in c:
        c["noise_clip"] = 0.0  # TD3 target smoothing noise is positional; with noise_clip=0 the target is a function of the row alone
    plan["logger"] = True
    plan["monitor"] = "final"
    plan["fault"] = {"kind": kind, "shift": rng.choice([2, 3, 5]), "from_call": rng.choice([1, 1, 2, 4]), "at_call": rng.choice([1, 2, 3, 5]), "perm_seed": rng.randrange(1000)}
    return plan


def value_plan(rng, name):
    """One simulated training run whose every update is compared with the float64 reference (rlsim/refine.py)."""
    plan = trainplan.base_plan(rng, PROPERTY, ["C03.value"], name, T=rng.choice([24, 32, 40]))
    plan["env"]["script"] = trainplan.make_script(rng, 50, style=rng.choice(["short", "mixed", "one_step", "long"]))
    ends = rng.choice(["term", "term", "mixed", "trunc"])
    for e in plan["env"]["script"]:
        e["end"] = "term" if ends == "term" else "trunc" if ends == "trunc" else rng.choice(["term", "trunc", "both"])
    c = plan["cfg"]
    if name != "mrq":
        c["learning_starts"] = rng.choice([0, 3, 5, 6])
    c["buffer_size"] = rng.choice([16, 64, 1000]) if name != "mrq" else rng.choice([32, 64, 1000])
    c["batch_size"] = rng.choice([2, 3, 4, 6])
    if name in ("td7", "mrq"):
        c["target_delay"] = rng.choice([1, 2, 3, 5])
        c["target_policy_noise"] = rng.choice([0.0, 0.2])
        c["exploration_noise"] = rng.choice([0.0, 0.1, 0.2])
    if name in ("nature_dqn", "ddqn", "ddqn_per"):
        # online and target network must differ at most updates (several online updates between two target copies)
        c["target_update_frequency"] = rng.choice([3, 5, 7, 7])
        c["update_frequency"] = rng.choice([1, 1, 2])
        if name != "nature_dqn":
            # double-Q selection only differs from the target's own maximiser once the online network has moved away
            c["lr"] = rng.choice([0.05, 0.1, 0.3])
            plan["env"]["discrete"] = rng.choice([3, 4])
    if name == "mrq":
        # boundary: a terminated flag on the LAST step of the n-step window (with horizon 1: every terminated transition)
        c["q_horizon"] = rng.choice([1, 1, 2, 3])
        if rng.random() < 0.6:
            for e in plan["env"]["script"]:
                e["end"] = "term"
                e["len"] = min(e["len"], rng.choice([2, 3, 5]))
            plan["env"]["script"].insert(0, {"len": rng.choice([5, 6]), "end": "term"})
    if name == "td7":
        c["steps_before_checkpointing"] = rng.choice([0, 3, 10_000])
        c["lap_min_priority"] = rng.choice([1.0, 1.0, 0.25])
    c["gamma"] = rng.choice([0.0, 0.5, 0.9, 0.99, 1.0])
    c["init_scale"] = 1.0
    if "noise_clip" in c:
        c["noise_clip"] = rng.choice([0.0, 0.0, 0.3, 0.5]) if name != "mrq" else 0.0
    if name == "td3_lap":
        c["lap_min_priority"] = rng.choice([1.0, 1.0, 0.25, 2.0])
    plan["logger"] = True
    plan["supply_targets"] = rng.random() < 0.85 or bool(c.get("noise_clip")) or name == "sac"  # smoothed target actions are read from a probe on the supplied target critic
    plan["monitor"] = False
    plan["kind"] = "value"
    return plan


def normalise(plan):
    return plan


def trace(run):
    """Comparable trace of a run: logged stats, env actions, final hashes."""
    out = []
    lg = run.logger
    for k, ev in run.log_events:
        if ev[0] == "stat":
            out.append(("stat", k, ev[1], np.asarray(ev[2], dtype=np.float64).tobytes().hex()[:64], float(np.asarray(ev[2]).reshape(-1)[0]) if np.asarray(ev[2]).size else 0.0))
    for s in run.env.steps():
        out.append(("act", s["i"], np.asarray(s["a"], dtype=np.float64).tobytes().hex()))
    for sn in run.snaps[-1:]:
        for n in sorted(sn.leaves):
            out.append(("final", n, sn.h(n)))
    return out


def execute(plan):
    if plan.get("kind") == "value":
        run = trainsim.TrainRun(plan)
        res = run.run()
        res.signature = f"{plan['adapter']}|value|{json.dumps(plan['cfg'], sort_keys=True)}|{sorted(res.probes)}"
        return res
    res = Result()
    site = "train_" + plan["adapter"]
    clean = json.loads(json.dumps(plan))
    clean.pop("faults", None)
    a = trainsim.TrainRun(clean)
    ra = a.run()
    faulted = json.loads(json.dumps(plan))
    faulted["faults"] = {"buffer": plan["fault"]}
    b = trainsim.TrainRun(faulted)
    rb = b.run()
    for r in (ra, rb):
        for v in r.violations:
            res.violate("C03.raise", site, v["detail"])
    ta, tb = trace(a), trace(b)
    res.log.add("traces", len(ta), len(tb), [t[:4] for t in ta if t[0] != "act"][:400])
    st = b.fault_state
    kind = plan["fault"]["kind"]
    res.simt("env_steps", a.env.n_steps + b.env.n_steps)
    first = next((i for i, (x, y) in enumerate(zip(ta, tb)) if x[:4] != y[:4]), None)
    if first is None and len(ta) != len(tb):
        first = min(len(ta), len(tb))
    if kind == "corrupt_terminated":
        if st["fired"]:
            res.fault("store_corrupt_terminated", st["fired"])
        if st["sampled_faulted_rows"]:
            res.probe("corrupted_rows_sampled", st["sampled_faulted_rows"])
        if first is not None:
            res.violate("C03.a", site, f"replacing the successor observation of terminated transitions changed training: first difference at trace item {first}: clean {ta[first][:3] + ta[first][4:]} vs faulted {tb[first][:3] + tb[first][4:]} ({st['sampled_faulted_rows']} corrupted rows were sampled)")
        elif st["sampled_faulted_rows"]:
            res.probe("terminated_successor_irrelevant")
    elif kind == "corrupt_nonterminated":
        if st["fired"] and first is not None:
            res.probe("control_fault_changes_trace")
        elif st["fired"]:
            res.probe("control_fault_without_effect")
    elif kind == "permute":
        if st["fired"]:
            res.fault("batch_permuted")
            k = st["at_iter"]
            sa = [t for t in ta if t[0] == "stat" and t[1] == k and t[2] in ("q loss", "q mean", "weighted loss")]
            sb = [t for t in tb if t[0] == "stat" and t[1] == k and t[2] in ("q loss", "q mean", "weighted loss")]
            # only the first gradient step of that iteration used the permuted batch
            n_marker = 0
            ok = True
            for x, y in zip(sa, sb):
                if x[2] == "q loss":
                    n_marker += 1
                if n_marker > 1:
                    break
                tol = 1e-5 * (1 + abs(x[4]))
                if not (abs(x[4] - y[4]) <= tol):
                    res.violate("C03.b", site, f"permuting the rows of the batch changed '{x[2]}' of that update: {x[4]!r} vs {y[4]!r}")
                    ok = False
                    break
            if ok and sa:
                res.probe("batch_order_irrelevant")
    res.signature = f"{plan['adapter']}|{kind}|{json.dumps(plan['cfg'], sort_keys=True)}|{bool(st['fired'])}"
    return res
