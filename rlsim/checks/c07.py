"""C07 — returns/advantages causal (NARROW SLICE: learning signals computed from sampled
sub-trajectories ignore everything after the first terminated step), by fault injection in
simulated MR.Q training (twin runs)."""
import json

from rlsim import trainplan, trainsim
from rlsim.checks.c03 import trace
from rlsim.core import Result

PROPERTY = "C07"
LEVEL = "fault_enumeration"
ENGINE = "TrainSim twin runs (train_mrq) with a fault-injecting SubtrajectoryReplayBufferPER"
RULE = ("Seeded plans: train_mrq on a scripted environment with many short terminated episodes x encoder horizon 2-3 x q horizon 1-3 x "
        "target_delay x done_weight {0, 0.1, 1}. Fault: in the batch RETURNED by one plan-chosen sample_batch call (encoder batch with "
        "intermediates, or critic batch without) every field after the first terminated step of each window (rewards, actions, observations, "
        "successor observations and the later flags) is rewritten with other finite stored values. The plan is executed clean and faulted in "
        "the same process; the complete trace (every logged statistic incl. q loss / q mean / encoder, dynamics, reward, done losses, every "
        "action, final hashes) must be bit-identical. Reach probe: the faulted batch contained a window with a terminated step before its end. "
        "A quarter of the plans are A2C plans (C07.c): real collect_trajectories + prepare_a2c_batch on 2-3 scripted environments, executed "
        "twice with the reward script of ONE environment rewritten; advantages and returns of the other environments must be bit-identical. "
        "Distinct = distinct (configuration, faulted call kind, fired?).")
REAL = ["train_mrq", "update_model_based_encoder / model_based_encoder_loss", "mrq_loss / update_critic_and_policy", "SubtrajectoryReplayBufferPER (dynamic subclass adds the fault)"]
STUB = ["environment (SimEnv)"]
ASSUMPTIONS = ["NARROW SLICE: GAE / reward-to-go / n-step recurrences against float64 references and independence between parallel environments are pure per-call clauses and are NOT decided",
               "masked contributions are exact zeros, so bitwise comparison of twins is legitimate"]
TIERS = {"quick": {"runs": 40}, "thorough": {"runs": 1000}}
REQUIRED = ["other_environments_irrelevant", "post_terminal_windows_faulted", "post_terminal_irrelevant_critic", "post_terminal_irrelevant_encoder"]
REQUIRED_QUICK = REQUIRED
CHUNK = 24  # TrainSim plans per fresh worker process
SHRINK_LISTS = [["env", "script"]]
PLAN_LIMIT_S = 240
SHRINK_INTS = []
ENC_KEYS = ("encoder loss", "dynamics loss", "reward loss", "done loss", "reward mse")


def make_a2c_plan(rng):
    """C07.c: advantages / returns of one environment must not depend on the other environments batched alongside it.
    Fault: another environment's reward script is rewritten (same episode structure, so every step stays aligned)."""
    N = rng.choice([2, 3])
    T = rng.choice([2, 3, 5, 8])
    scripts = [trainplan.make_script(rng, T + 4, style=rng.choice(["short", "mixed", "long"])) for _ in range(N)]
    return {"kind": "a2c_envs", "num_envs": N, "steps": T, "scripts": scripts, "victim": rng.randrange(N), "obs_dim": rng.choice([1, 3]),
            "discrete": rng.choice([0, 3]), "gamma": rng.choice([0.9, 0.99, 1.0]), "gae_lambda": rng.choice([0.5, 0.95, 1.0]),
            "seed": rng.randrange(2**31), "hidden": 4, "n_rollouts": rng.choice([1, 2])}


def run_a2c(plan, perturb):
    import gymnasium as gym
    import jax
    import jax.numpy as jnp
    import numpy as np
    from rl_blox.algorithm import a2c, reinforce

    from rlsim.simenv import SimEnv

    envs = []
    for i in range(plan["num_envs"]):
        script = json.loads(json.dumps(plan["scripts"][i]))
        if perturb and i == plan["victim"]:
            for ep in script:
                ep["rew"] = [7.0, -5.0, 11.0]
        envs.append(SimEnv(script, obs_dim=plan["obs_dim"], act_dim=1, discrete=plan["discrete"], space_seed=i, name=f"env{i}"))
    vec = gym.vector.SyncVectorEnv([(lambda e=e: e) for e in envs], autoreset_mode=gym.vector.AutoresetMode.SAME_STEP)
    if plan["discrete"]:
        st = reinforce.create_policy_gradient_discrete_state(envs[0], policy_hidden_nodes=[plan["hidden"]], value_network_hidden_nodes=[plan["hidden"]], seed=plan["seed"])
    else:
        st = reinforce.create_policy_gradient_continuous_state(envs[0], policy_hidden_nodes=[plan["hidden"]], value_network_hidden_nodes=[plan["hidden"]], seed=plan["seed"])
    key = jax.random.key(plan["seed"])
    last_obs, _ = vec.reset(seed=plan["seed"])
    last_obs = jnp.array(last_obs)
    outs = []
    for _ in range(plan["n_rollouts"]):
        key, k = jax.random.split(key)
        buf, last_obs, _, _ = a2c.collect_trajectories(vec, st.policy, k, last_obs, plan["steps"])
        o, a, adv, ret = a2c.prepare_a2c_batch(buf, st.value_function, last_obs, vec.single_action_space, plan["gamma"], plan["gae_lambda"])
        outs.append((np.asarray(adv).reshape(plan["steps"], plan["num_envs"]), np.asarray(ret).reshape(plan["steps"], plan["num_envs"])))
    return outs, sum(e.n_steps for e in envs)


def execute_a2c(plan):
    import numpy as np

    res = Result()
    site = "prepare_a2c_batch"
    try:
        a, n1 = run_a2c(plan, False)
        b, n2 = run_a2c(plan, True)
    except Exception as e:
        from rlsim.core import raised_by_code_under_test
        if not raised_by_code_under_test(e):
            raise
        res.violate("C07.raise", site, f"{type(e).__name__}: {e}")
        return res
    res.simt("env_steps", n1 + n2)
    v = plan["victim"]
    changed_victim = False
    for r, ((adv_a, ret_a), (adv_b, ret_b)) in enumerate(zip(a, b)):
        res.log.add("rollout", r, adv_a, ret_a, adv_b, ret_b)
        if adv_a[:, v].tobytes() != adv_b[:, v].tobytes():
            changed_victim = True
        for e in range(plan["num_envs"]):
            if e == v:
                continue
            if adv_a[:, e].tobytes() != adv_b[:, e].tobytes() or ret_a[:, e].tobytes() != ret_b[:, e].tobytes():
                t = int(np.argmax((adv_a[:, e] != adv_b[:, e]) | (ret_a[:, e] != ret_b[:, e])))
                res.violate("C07.c", site, f"rollout {r}: rewriting the rewards of environment {v} changed the advantage/return of environment {e} at time {t}: {adv_a[t, e]!r} -> {adv_b[t, e]!r} (gamma={plan['gamma']}, lambda={plan['gae_lambda']}, {plan['num_envs']} envs x {plan['steps']} steps)")
                return res
    res.fault("other_environment_rewards_rewritten")
    if changed_victim:
        res.probe("other_environments_irrelevant")
    res.signature = f"a2c|{plan['num_envs']}|{plan['steps']}|{plan['gamma']}|{plan['gae_lambda']}|{plan['discrete']}"
    return res


def make_plan(rng, tier, index):
    if index % 4 == 3:
        plan = make_a2c_plan(rng)
        plan["check"] = PROPERTY
        return plan
    plan = trainplan.base_plan(rng, PROPERTY, [], "mrq", T=rng.choice([24, 30]))
    plan["env"]["script"] = trainplan.make_script(rng, 40, style=rng.choice(["short", "short", "mixed"]))
    for e in plan["env"]["script"]:
        e["end"] = "term" if rng.random() < 0.85 else "trunc"
    # one long episode first so that admissible starts exist early
    plan["env"]["script"].insert(0, {"len": rng.choice([5, 6]), "end": "term"})
    c = plan["cfg"]
    c["learning_starts"] = rng.choice([8, 10])
    c["encoder_horizon"] = rng.choice([2, 3])
    c["q_horizon"] = rng.choice([1, 2, 3])
    c["target_delay"] = rng.choice([1, 2, 3])
    c["batch_size"] = rng.choice([3, 4])
    c["buffer_size"] = rng.choice([64, 1000])
    c["exploration_noise"] = rng.choice([0.0, 0.1])
    plan["supply_targets"] = False
    plan["logger"] = True
    plan["monitor"] = "final"
    plan["fault"] = {"kind": "post_terminal", "at_call": rng.choice([1, 2, 3, 4, 5, 6, 8])}
    return plan


def normalise(plan):
    return plan


def execute(plan):
    if plan.get("kind") == "a2c_envs":
        return execute_a2c(plan)
    res = Result()
    site = "train_mrq"
    clean = json.loads(json.dumps(plan))
    clean.pop("faults", None)
    a = trainsim.TrainRun(clean)
    ra = a.run()
    faulted = json.loads(json.dumps(plan))
    faulted["faults"] = {"buffer": plan["fault"]}
    b = trainsim.TrainRun(faulted)
    rb = b.run()
    for r in (ra, rb):
        for v in r.violations:
            res.violate("C07.raise", site, v["detail"])
    ta, tb = trace(a), trace(b)
    st = b.fault_state
    res.simt("env_steps", a.env.n_steps + b.env.n_steps)
    res.log.add("traces", len(ta), len(tb), [t[:4] for t in ta if t[0] != "act"][:400])
    which = "encoder" if st.get("include_intermediate") else "critic"
    if st["fired"] and st["sampled_faulted_rows"]:
        res.fault("post_terminal_rewrite_" + which, st["sampled_faulted_rows"])
        res.probe("post_terminal_windows_faulted", st["sampled_faulted_rows"])
        first = next((i for i, (x, y) in enumerate(zip(ta, tb)) if x[:4] != y[:4]), None)
        if first is None and len(ta) != len(tb):
            first = min(len(ta), len(tb))
        if first is not None:
            x, y = ta[first], tb[first]
            key = x[2] if x[0] == "stat" else x[0]
            clause = "C07.b" if key in ENC_KEYS or which == "encoder" else "C07.a"
            res.violate(clause, site, f"rewriting the data after the first terminated step of {st['sampled_faulted_rows']} sampled windows ({which} batch, call {plan['fault']['at_call']}, iteration {st['at_iter']}) changed the learning signal: first difference '{key}' (iteration {x[1]}): clean {x[4] if x[0] == 'stat' else x[2]!r} vs faulted {y[4] if y[0] == 'stat' else y[2]!r}")
        else:
            res.probe("post_terminal_irrelevant_" + which)
    res.signature = f"{json.dumps(plan['cfg'], sort_keys=True)}|{which}|{bool(st['fired'])}|{bool(st['sampled_faulted_rows'])}"
    return res
