"""C07 — returns/advantages causal (NARROW SLICE: learning signals computed from sampled
sub-trajectories ignore everything after the first terminated step), by fault injection in
simulated MR.Q training (twin runs)."""
import json

from rlsim import trainplan, trainsim
from rlsim.checks.c03 import trace
from rlsim.core import Result

PROPERTY = "C07"
LEVEL = "fault_enumeration"
ENGINE = "TrainSim twin runs (train_mrq) with a fault-injecting SubtrajectoryReplayBufferPER"
RULE = ("Seeded plans: train_mrq on a scripted environment with many short terminated episodes x encoder horizon 2-3 x q horizon 1-3 x "
        "target_delay x done_weight {0, 0.1, 1}. Fault: in the batch RETURNED by one plan-chosen sample_batch call (encoder batch with "
        "intermediates, or critic batch without) every field after the first terminated step of each window (rewards, actions, observations, "
        "successor observations and the later flags) is rewritten with other finite stored values. The plan is executed clean and faulted in "
        "the same process; the complete trace (every logged statistic incl. q loss / q mean / encoder, dynamics, reward, done losses, every "
        "action, final hashes) must be bit-identical. Reach probe: the faulted batch contained a window with a terminated step before its end. "
        "Distinct = distinct (configuration, faulted call kind, fired?).")
REAL = ["train_mrq", "update_model_based_encoder / model_based_encoder_loss", "mrq_loss / update_critic_and_policy", "SubtrajectoryReplayBufferPER (dynamic subclass adds the fault)"]
STUB = ["environment (SimEnv)"]
ASSUMPTIONS = ["NARROW SLICE: GAE / reward-to-go / n-step recurrences against float64 references and independence between parallel environments are pure per-call clauses and are NOT decided",
               "masked contributions are exact zeros, so bitwise comparison of twins is legitimate"]
TIERS = {"quick": {"runs": 32}, "thorough": {"runs": 800}}
REQUIRED = ["post_terminal_windows_faulted", "post_terminal_irrelevant_critic", "post_terminal_irrelevant_encoder"]
REQUIRED_QUICK = REQUIRED
SHRINK_LISTS = [["env", "script"]]
SHRINK_INTS = []
ENC_KEYS = ("encoder loss", "dynamics loss", "reward loss", "done loss", "reward mse")


def make_plan(rng, tier, index):
    plan = trainplan.base_plan(rng, PROPERTY, [], "mrq", T=rng.choice([24, 30]))
    plan["env"]["script"] = trainplan.make_script(rng, 40, style=rng.choice(["short", "short", "mixed"]))
    for e in plan["env"]["script"]:
        e["end"] = "term" if rng.random() < 0.85 else "trunc"
    # one long episode first so that admissible starts exist early
    plan["env"]["script"].insert(0, {"len": rng.choice([5, 6]), "end": "term"})
    c = plan["cfg"]
    c["learning_starts"] = rng.choice([8, 10])
    c["encoder_horizon"] = rng.choice([2, 3])
    c["q_horizon"] = rng.choice([1, 2, 3])
    c["target_delay"] = rng.choice([1, 2, 3])
    c["batch_size"] = rng.choice([3, 4])
    c["buffer_size"] = rng.choice([64, 1000])
    c["exploration_noise"] = rng.choice([0.0, 0.1])
    plan["supply_targets"] = False
    plan["logger"] = True
    plan["monitor"] = "final"
    plan["fault"] = {"kind": "post_terminal", "at_call": rng.choice([1, 2, 3, 4, 5, 6, 8])}
    return plan


def normalise(plan):
    return plan


def execute(plan):
    res = Result()
    site = "train_mrq"
    clean = json.loads(json.dumps(plan))
    clean.pop("faults", None)
    a = trainsim.TrainRun(clean)
    ra = a.run()
    faulted = json.loads(json.dumps(plan))
    faulted["faults"] = {"buffer": plan["fault"]}
    b = trainsim.TrainRun(faulted)
    rb = b.run()
    for r in (ra, rb):
        for v in r.violations:
            res.violate("C07.raise", site, v["detail"])
    ta, tb = trace(a), trace(b)
    st = b.fault_state
    res.simt("env_steps", a.env.n_steps + b.env.n_steps)
    res.log.add("traces", len(ta), len(tb), [t[:4] for t in ta if t[0] != "act"][:400])
    which = "encoder" if st.get("include_intermediate") else "critic"
    if st["fired"] and st["sampled_faulted_rows"]:
        res.fault("post_terminal_rewrite_" + which, st["sampled_faulted_rows"])
        res.probe("post_terminal_windows_faulted", st["sampled_faulted_rows"])
        first = next((i for i, (x, y) in enumerate(zip(ta, tb)) if x[:4] != y[:4]), None)
        if first is None and len(ta) != len(tb):
            first = min(len(ta), len(tb))
        if first is not None:
            x, y = ta[first], tb[first]
            key = x[2] if x[0] == "stat" else x[0]
            clause = "C07.b" if key in ENC_KEYS or which == "encoder" else "C07.a"
            res.violate(clause, site, f"rewriting the data after the first terminated step of {st['sampled_faulted_rows']} sampled windows ({which} batch, call {plan['fault']['at_call']}, iteration {st['at_iter']}) changed the learning signal: first difference '{key}' (iteration {x[1]}): clean {x[4] if x[0] == 'stat' else x[2]!r} vs faulted {y[4] if y[0] == 'stat' else y[2]!r}")
        else:
            res.probe("post_terminal_irrelevant_" + which)
    res.signature = f"{json.dumps(plan['cfg'], sort_keys=True)}|{which}|{bool(st['fired'])}|{bool(st['sampled_faulted_rows'])}"
    return res
