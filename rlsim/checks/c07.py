"""C07 — returns/advantages obey their recurrences and are causal, decided inside simulated training:
(1) fault injection (twin runs): post-terminal data of sampled sub-trajectories (MR.Q), another environment's rewards (A2C);
(2) refinement of the learning signals simulated runs actually produce against float64 recurrences:
    GAE per environment in A2C and PPO, reward-to-go in REINFORCE / actor-critic datasets."""
import json

from rlsim import trainplan, trainsim
from rlsim.checks.c03 import trace
from rlsim.core import Result

PROPERTY = "C07"
LEVEL = "fault_enumeration"
ENGINE = "TrainSim twin runs (train_mrq, A2C collection) with fault injection + recurrence refinement inside simulated A2C / PPO / REINFORCE / actor-critic runs"
RULE = ("Seeded plans, four kinds. (i) train_mrq on a scripted environment with many short terminated episodes x encoder horizon 2-3 x q horizon 1-3 x "
        "target_delay x done_weight {0, 0.1, 1}. Fault: in the batch RETURNED by one plan-chosen sample_batch call (encoder batch with "
        "intermediates, or critic batch without) every field after the first terminated step of each window (rewards, actions, observations, "
        "successor observations and the later flags) is rewritten with other finite stored values. The plan is executed clean and faulted in "
        "the same process; the complete trace (every logged statistic incl. q loss / q mean / encoder, dynamics, reward, done losses, every "
        "action, final hashes) must be bit-identical. Reach probe: the faulted batch contained a window with a terminated step before its end. "
        "(ii) A2C plans: real collect_trajectories + prepare_a2c_batch on 2-3 scripted environments, executed twice with the reward script of ONE "
        "environment rewritten; advantages and returns of the other environments must be bit-identical (C07.c), and the advantages / returns of the "
        "clean run must equal the float64 GAE recurrence per environment, cut at terminated steps (C07.rec; float64 forward passes of the real value "
        "network; tolerance 2e-5(1+|x|) + 16|ref32-ref64| + float32 rounding). "
        "(iii) train_reinforce / train_ac runs (half with integer-typed environment rewards): for every dataset the collector handed to the learner the "
        "prepared returns equal G_t = r_t + gamma G_{t+1} restarted per episode record and the discount column gamma**t (C07.rtg). "
        "(iv) train_ppo runs on 2-3 parallel scripted environments (disjoint observation-tag ranges): the value network is asked for the bootstrap of "
        "environment e only about observations of environment e (C07.ppo.bootstrap; probe on the critic), and the advantages the loss receives "
        "(recording wrapper around the module-level name ppo_loss, jax.debug.callback) equal, per environment, the GAE recurrence over that environment's "
        "own segment with the rewards / flags / next values the collector returned (C07.ppo.gae). "
        "Distinct = distinct (configuration, plan kind, faulted call kind, fired?).")
REAL = ["train_mrq", "update_model_based_encoder / model_based_encoder_loss", "mrq_loss / update_critic_and_policy", "SubtrajectoryReplayBufferPER (dynamic subclass adds the fault)",
        "a2c.collect_trajectories / prepare_a2c_batch / compute_gae", "train_ppo / collect_trajectories / update_ppo", "train_reinforce / train_ac / EpisodeDataset.prepare_policy_gradient_dataset"]
STUB = ["environment (SimEnv; gymnasium SyncVectorEnv is real)"]
ASSUMPTIONS = ["recurrences are decided on the reward / value / termination sequences that simulated runs produce (scripted episode structures incl. terminations inside a rollout, one-step episodes, integer rewards), not for all sequences",
               "masked contributions are exact zeros, so bitwise comparison of twins is legitimate",
               "PPO uses compute_gae's documented defaults gamma=0.99, lambda=0.95 (update_ppo does not expose them); values are recovered as returns - advantages",
               "the n-step return of MR.Q's critic target is part of the C03 update refinement"]
TIERS = {"quick": {"runs": 48}, "thorough": {"runs": 1200}}
REQUIRED = ["other_environments_irrelevant", "post_terminal_windows_faulted", "post_terminal_irrelevant_critic", "post_terminal_irrelevant_encoder",
            "gae_matches_recurrence", "gae_with_termination_inside_rollout", "reward_to_go_matches_recurrence", "reward_to_go_integer_rewards",
            "reward_to_go_over_several_episodes", "ppo_bootstrap_inputs_checked", "ppo_advantages_match_per_environment_recurrence", "ppo_segment_boundary_not_terminated"]
REQUIRED_QUICK = ["other_environments_irrelevant", "post_terminal_windows_faulted", "post_terminal_irrelevant_critic", "post_terminal_irrelevant_encoder",
                  "gae_matches_recurrence", "reward_to_go_matches_recurrence", "ppo_bootstrap_inputs_checked", "ppo_advantages_match_per_environment_recurrence"]
CHUNK = 24  # TrainSim plans per fresh worker process
SHRINK_LISTS = [["env", "script"]]
PLAN_LIMIT_S = 240
SHRINK_INTS = []
ENC_KEYS = ("encoder loss", "dynamics loss", "reward loss", "done loss", "reward mse")


def make_a2c_plan(rng):
    """C07.c: advantages / returns of one environment must not depend on the other environments batched alongside it.
    Fault: another environment's reward script is rewritten (same episode structure, so every step stays aligned)."""
    N = rng.choice([2, 3])
    T = rng.choice([2, 3, 5, 8])
    scripts = [trainplan.make_script(rng, T + 4, style=rng.choice(["short", "mixed", "long"])) for _ in range(N)]
    return {"kind": "a2c_envs", "num_envs": N, "steps": T, "scripts": scripts, "victim": rng.randrange(N), "obs_dim": rng.choice([1, 3]),
            "discrete": rng.choice([0, 3]), "gamma": rng.choice([0.9, 0.99, 1.0]), "gae_lambda": rng.choice([0.5, 0.95, 1.0]),
            "seed": rng.randrange(2**31), "hidden": 4, "n_rollouts": rng.choice([1, 2])}


def run_a2c(plan, perturb, refs=None):
    import gymnasium as gym
    import jax
    import jax.numpy as jnp
    import numpy as np
    from rl_blox.algorithm import a2c, reinforce

    from rlsim.simenv import SimEnv

    envs = []
    for i in range(plan["num_envs"]):
        script = json.loads(json.dumps(plan["scripts"][i]))
        if perturb and i == plan["victim"]:
            for ep in script:
                ep["rew"] = [7.0, -5.0, 11.0]
        envs.append(SimEnv(script, obs_dim=plan["obs_dim"], act_dim=1, discrete=plan["discrete"], space_seed=i, name=f"env{i}"))
    vec = gym.vector.SyncVectorEnv([(lambda e=e: e) for e in envs], autoreset_mode=gym.vector.AutoresetMode.SAME_STEP)
    if plan["discrete"]:
        st = reinforce.create_policy_gradient_discrete_state(envs[0], policy_hidden_nodes=[plan["hidden"]], value_network_hidden_nodes=[plan["hidden"]], seed=plan["seed"])
    else:
        st = reinforce.create_policy_gradient_continuous_state(envs[0], policy_hidden_nodes=[plan["hidden"]], value_network_hidden_nodes=[plan["hidden"]], seed=plan["seed"])
    key = jax.random.key(plan["seed"])
    last_obs, _ = vec.reset(seed=plan["seed"])
    last_obs = jnp.array(last_obs)
    outs = []
    for _ in range(plan["n_rollouts"]):
        key, k = jax.random.split(key)
        buf, last_obs, _, _ = a2c.collect_trajectories(vec, st.policy, k, last_obs, plan["steps"])
        o, a, adv, ret = a2c.prepare_a2c_batch(buf, st.value_function, last_obs, vec.single_action_space, plan["gamma"], plan["gae_lambda"])
        outs.append((np.asarray(adv).reshape(plan["steps"], plan["num_envs"]), np.asarray(ret).reshape(plan["steps"], plan["num_envs"])))
        if refs is not None:
            refs.append(reference_gae(buf, st.value_function, last_obs, plan))
    return outs, sum(e.n_steps for e in envs)


def reference_gae(buf, value_function, last_obs, plan):
    """float64 reference of the defining recurrences, per environment, from the rollout the collector stored:
    delta_t = r_t + gamma (1 - term_t) V(o_{t+1}) - V(o_t);  A_t = delta_t + gamma lambda (1 - term_t) A_{t+1};  R_t = A_t + V(o_t).
    Forward passes of the (real) value network in float64 and in float32 (the latter gauges rounding)."""
    import jax
    import jax.numpy as jnp
    import numpy as np

    T, N = plan["steps"], plan["num_envs"]
    obs = np.asarray(buf.buffer["obs"])[:T]
    rew = np.asarray(buf.buffer["rewards"], dtype=np.float64)[:T].reshape(T, N)
    term = np.asarray(buf.buffer["terminations"], dtype=np.float64)[:T].reshape(T, N)
    g, lam = plan["gamma"], plan["gae_lambda"]
    out = []
    for dt in (np.float64, np.float32):
        def fwd():
            v = np.asarray(value_function(jnp.asarray(obs.reshape(T * N, -1), dtype=dt)), dtype=np.float64).reshape(T, N)
            vl = np.asarray(value_function(jnp.asarray(np.asarray(last_obs), dtype=dt)), dtype=np.float64).reshape(N)
            return v, vl
        if dt is np.float64:
            with jax.experimental.enable_x64():
                v, vl = fwd()
        else:
            v, vl = fwd()
        nv = np.concatenate([v[1:], vl[None]], axis=0)
        adv = np.zeros((T, N))
        run = np.zeros(N)
        for t in range(T - 1, -1, -1):
            delta = rew[t] + g * (1 - term[t]) * nv[t] - v[t]
            run = delta + g * lam * (1 - term[t]) * run
            adv[t] = run
        out.append((adv, adv + v))
    (adv, ret), (adv32, ret32) = out
    scale = 1.0 + np.abs(rew).max() + np.abs(ret).max()
    tol = 2e-5 * (1 + np.abs(adv)) + 64 * 1.2e-7 * scale * T + 16 * np.abs(adv - adv32)
    tol_r = 2e-5 * (1 + np.abs(ret)) + 64 * 1.2e-7 * scale * T + 16 * np.abs(ret - ret32)
    return {"adv": adv, "ret": ret, "tol": tol, "tol_r": tol_r, "term": term}


def execute_a2c(plan):
    import numpy as np

    res = Result()
    site = "prepare_a2c_batch"
    try:
        refs = []
        a, n1 = run_a2c(plan, False, refs)
        b, n2 = run_a2c(plan, True)
    except Exception as e:
        from rlsim.core import raised_by_code_under_test
        if not raised_by_code_under_test(e):
            raise
        res.violate("C07.raise", site, f"{type(e).__name__}: {e}")
        return res
    res.simt("env_steps", n1 + n2)
    for r, ((adv_a, ret_a), ref) in enumerate(zip(a, refs)):
        for what, got, want, tol in (("advantage", adv_a, ref["adv"], ref["tol"]), ("return", ret_a, ref["ret"], ref["tol_r"])):
            bad = np.abs(got.astype(np.float64) - want) > tol
            if bad.any():
                t, e = (int(x) for x in np.argwhere(bad)[0])
                res.violate("C07.rec", site, f"rollout {r}: {what} of environment {e} at time {t} is {got[t, e]!r}, the defining recurrence (cut at terminated steps) gives {want[t, e]!r} "
                                             f"(gamma={plan['gamma']}, lambda={plan['gae_lambda']}, terminated flags of that environment {ref['term'][:, e].astype(int).tolist()})")
                return res
        res.probe("gae_matches_recurrence")
        tm = ref["term"]
        if tm[:-1].any():
            res.probe("gae_with_termination_inside_rollout")
    v = plan["victim"]
    changed_victim = False
    for r, ((adv_a, ret_a), (adv_b, ret_b)) in enumerate(zip(a, b)):
        res.log.add("rollout", r, adv_a, ret_a, adv_b, ret_b)
        if adv_a[:, v].tobytes() != adv_b[:, v].tobytes():
            changed_victim = True
        for e in range(plan["num_envs"]):
            if e == v:
                continue
            if adv_a[:, e].tobytes() != adv_b[:, e].tobytes() or ret_a[:, e].tobytes() != ret_b[:, e].tobytes():
                t = int(np.argmax((adv_a[:, e] != adv_b[:, e]) | (ret_a[:, e] != ret_b[:, e])))
                res.violate("C07.c", site, f"rollout {r}: rewriting the rewards of environment {v} changed the advantage/return of environment {e} at time {t}: {adv_a[t, e]!r} -> {adv_b[t, e]!r} (gamma={plan['gamma']}, lambda={plan['gae_lambda']}, {plan['num_envs']} envs x {plan['steps']} steps)")
                return res
    res.fault("other_environment_rewards_rewritten")
    if changed_victim:
        res.probe("other_environments_irrelevant")
    res.signature = f"a2c|{plan['num_envs']}|{plan['steps']}|{plan['gamma']}|{plan['gae_lambda']}|{plan['discrete']}"
    return res


def make_rtg_plan(rng):
    """Reward-to-go inside simulated REINFORCE / actor-critic training (datasets of one or several scripted episodes;
    integer-typed rewards are an environment-seam variation)."""
    name = rng.choice(["reinforce", "actor_critic"])
    plan = trainplan.base_plan(rng, PROPERTY, ["C07.rtg"], name, T=rng.choice([12, 20, 30]))
    ints = rng.random() < 0.5
    for ep in plan["env"]["script"]:
        if ints:
            ep["rew"] = [rng.choice([-2.0, -1.0, 0.0, 1.0, 3.0]) for _ in range(rng.randint(1, 3))]
    if ints:
        plan["env"]["reward_type"] = "int"
    plan["cfg"]["gamma"] = rng.choice([0.5, 0.9, 0.99, 1.0])
    plan["logger"] = rng.random() < 0.5
    plan["monitor"] = False
    plan["kind"] = "rtg"
    trainplan.sanitize(plan)
    return plan


def make_ppo_plan(rng):
    """GAE inside simulated PPO training on 2-3 parallel scripted environments."""
    plan = trainplan.base_plan(rng, PROPERTY, ["C07.ppo"], "ppo")
    plan["cfg"]["num_envs"] = rng.choice([2, 2, 3])
    plan["cfg"]["batch_size"] = rng.choice([2, 3, 4, 6])
    plan["env"]["scripts"] = [trainplan.make_script(rng, 30, style=rng.choice(["short", "mixed", "long", "one_step"])) for _ in range(plan["cfg"]["num_envs"])]
    if rng.random() < 0.4:
        # boundary coincidence: several environments are truncated in the same step
        sc = trainplan.make_script(rng, 30, style=rng.choice(["short", "mixed"]))
        for ep in sc:
            ep["end"] = "trunc"
        plan["env"]["scripts"] = [json.loads(json.dumps(sc)) for _ in range(plan["cfg"]["num_envs"])]
        if plan["cfg"]["num_envs"] == 3 and rng.random() < 0.5:
            plan["env"]["scripts"][2] = trainplan.make_script(rng, 30, style="mixed")
    plan["logger"] = rng.random() < 0.7
    plan["monitor"] = False
    plan["kind"] = "rtg"
    return plan


def make_plan(rng, tier, index):
    if index % 4 == 3:
        plan = make_a2c_plan(rng)
        plan["check"] = PROPERTY
        return plan
    if index % 4 == 1:
        return make_rtg_plan(rng) if (index // 4) % 2 == 0 else make_ppo_plan(rng)
    plan = trainplan.base_plan(rng, PROPERTY, [], "mrq", T=rng.choice([24, 30]))
    plan["env"]["script"] = trainplan.make_script(rng, 40, style=rng.choice(["short", "short", "mixed"]))
    for e in plan["env"]["script"]:
        e["end"] = "term" if rng.random() < 0.85 else "trunc"
    # one long episode first so that admissible starts exist early
    plan["env"]["script"].insert(0, {"len": rng.choice([5, 6]), "end": "term"})
    c = plan["cfg"]
    c["learning_starts"] = rng.choice([8, 10])
    c["encoder_horizon"] = rng.choice([2, 3])
    c["q_horizon"] = rng.choice([1, 2, 3])
    c["target_delay"] = rng.choice([1, 2, 3])
    c["batch_size"] = rng.choice([3, 4])
    c["buffer_size"] = rng.choice([64, 1000])
    c["exploration_noise"] = rng.choice([0.0, 0.1])
    plan["supply_targets"] = False
    plan["logger"] = True
    plan["monitor"] = "final"
    plan["fault"] = {"kind": "post_terminal", "at_call": rng.choice([1, 2, 3, 4, 5, 6, 8])}
    return plan


def normalise(plan):
    return plan


def execute(plan):
    if plan.get("kind") == "a2c_envs":
        return execute_a2c(plan)
    if plan.get("kind") == "rtg":
        run = trainsim.TrainRun(plan)
        res = run.run()
        res.signature = f"rtg|{plan['adapter']}|{json.dumps(plan['cfg'], sort_keys=True)}|{plan['env'].get('reward_type')}|{sorted(res.probes)}"
        return res
    res = Result()
    site = "train_mrq"
    clean = json.loads(json.dumps(plan))
    clean.pop("faults", None)
    a = trainsim.TrainRun(clean)
    ra = a.run()
    faulted = json.loads(json.dumps(plan))
    faulted["faults"] = {"buffer": plan["fault"]}
    b = trainsim.TrainRun(faulted)
    rb = b.run()
    for r in (ra, rb):
        for v in r.violations:
            res.violate("C07.raise", site, v["detail"])
    ta, tb = trace(a), trace(b)
    st = b.fault_state
    res.simt("env_steps", a.env.n_steps + b.env.n_steps)
    res.log.add("traces", len(ta), len(tb), [t[:4] for t in ta if t[0] != "act"][:400])
    which = "encoder" if st.get("include_intermediate") else "critic"
    if st["fired"] and st["sampled_faulted_rows"]:
        res.fault("post_terminal_rewrite_" + which, st["sampled_faulted_rows"])
        res.probe("post_terminal_windows_faulted", st["sampled_faulted_rows"])
        first = next((i for i, (x, y) in enumerate(zip(ta, tb)) if x[:4] != y[:4]), None)
        if first is None and len(ta) != len(tb):
            first = min(len(ta), len(tb))
        if first is not None:
            x, y = ta[first], tb[first]
            key = x[2] if x[0] == "stat" else x[0]
            clause = "C07.b" if key in ENC_KEYS or which == "encoder" else "C07.a"
            res.violate(clause, site, f"rewriting the data after the first terminated step of {st['sampled_faulted_rows']} sampled windows ({which} batch, call {plan['fault']['at_call']}, iteration {st['at_iter']}) changed the learning signal: first difference '{key}' (iteration {x[1]}): clean {x[4] if x[0] == 'stat' else x[2]!r} vs faulted {y[4] if y[0] == 'stat' else y[2]!r}")
        else:
            res.probe("post_terminal_irrelevant_" + which)
    res.signature = f"{json.dumps(plan['cfg'], sort_keys=True)}|{which}|{bool(st['fired'])}|{bool(st['sampled_faulted_rows'])}"
    return res
