"""C16 — black-box optimisers (CMA-ES, cross-entropy method) keep their distribution and bookkeeping invariants."""
from rlsim import optimsim

PROPERTY = "C16"
LEVEL = "exploration"
ENGINE = "OptimSim"
RULE = ("Seeded plans; the fitness source is scripted by the plan. 1 plan in 20: train_cmaes itself on a scripted gymnasium environment (episode lengths, "
        "rewards incl. non-finite ones from the plan; the environment records the policy parameters of every episode): returned best fitness, stop/episode "
        "accounting and the returned policy (= mean of the last update) recomputed from the recorded candidates. Of the rest, CMA-ES plans (55%): CMAESConfig.create / CMAESState.create / sample_population / "
        "get_next_parameters / set_evaluation_feedback / is_cmaes_finished / update_search_distribution in the order train_cmaes uses them, 3-15 generations, "
        "dimension 1-8 (by plan index), population default/4/9, active and default update, maximise and minimise, initial variance 1e-12..1e6, "
        "none/diagonal/full initial covariance, optional box bounds, train_cmaes' stop rules obeyed or ignored; feedback styles distinct / ties / huge (1e12) / "
        "constant / rising / falling / adjacent float32 numbers / mixed, per-step reward vectors, and +inf/-inf/NaN entries as faults; extra configurations "
        "(n_params up to 1000, population 2-64) for the weights; a parameter-vector round trip through an MLP (0-2 hidden layers, width 1-4, 1-3 inputs, "
        "1-2 outputs) and a DeterministicTanhPolicy around it. After every tell: incumbent vs the minimum over all recorded evaluations; after every update: "
        "mean recomputed in float64 from the recorded candidates (tie orders enumerated up to 24), variance growth, covariance symmetry/diagonal. "
        "CEM plans (45%): cem_sample/cem_update driven directly, or optimize_cem with a recording fitness function (with and without history); boxes symmetric / "
        "asymmetric / 1e-3 wide / 1e3 wide / offset / different per dimension, means inside or exactly on bounds, variances 1e-12..1e12, "
        "population 2-32, elites 1..population (and > population: must be rejected), alpha 0..1, same fitness styles and faults. "
        "Distinct = distinct (kind, dimension, population[/elite], update variant, covariance/box/variance style, feedback style, length, #updates, stop, fault kinds).")
REAL = ["algorithm.cmaes.CMAESConfig.create", "CMAESState.create", "Population", "sample_population", "get_next_parameters", "set_evaluation_feedback",
        "is_cmaes_finished", "update_search_distribution", "train_cmaes", "flat_params", "set_params", "blox.function_approximator.mlp.MLP", "policy_head.DeterministicTanhPolicy",
        "blox.cross_entropy_method.cem_sample", "cem_update", "optimize_cem", "jax PRNG (seeded by the plan)"]
STUB = ["fitness source (scripted by the plan; for optimize_cem a recording fitness function)", "the episode loop of train_cmaes in ask/tell plans (the driver replays its call order)", "environment of the train_cmaes plans (scripted episodes; dynamics ignore the action)"]
ASSUMPTIONS = [
    "fitness is compared at the library's working precision (float32); scripted values are float32-exact, so this never merges distinct values",
    "internal CMA-ES fitness = -feedback when maximize=True (set_evaluation_feedback), +feedback otherwise; +inf/-inf are ordinary ordered values, NaN is never 'best' and a generation containing NaN is not mean-checked (counted unchecked)",
    "documented step-size bound: cmaes.py 'Adapt step size with factor <= exp(0.6)' => variance ratio <= exp(1.2)",
    "ties: any order of tied candidates is accepted (stable order tried first, then up to 24 enumerated orders / elite sets, else unchecked)",
    "covariance clause demands finite + symmetric (1e-5 of max |entry|) + positive diagonal only, and only while all feedback so far was finite; positive definiteness is not demanded (not guaranteed under the active update)",
    "population size >= 2 (population 1 has no recombination weights)",
    "CEM is a maximiser (docstring: 'Larger values are better'); mean update alpha*old + (1-alpha)*mean(elites), variance alpha*old + (1-alpha)*var(elites) (ddof 0)",
    "CEM candidates: tolerance 0 when the mean is inside the box; new mean may leave the box by 1 float32 ulp of the bound (convex update rounding); 2..4 ulp is reported under its own clause C16.g.ulp",
    "optimize_cem with n_elite > n_population must raise ValueError before evaluating any candidate",
    "an exception raised inside /repo during a call whose precondition holds is a violation (C16.raise*); optimize_cem(return_history=True) whose initial max variance is already <= epsilon (zero iterations) has its own clause C16.raise.empty_history (generated while optimsim.GENERATE_ZERO_ITERATION_HISTORY is True)",
]
TIERS = {"quick": {"runs": 480}, "thorough": {"runs": 40000}}
REQUIRED = ["weights_checked", "incumbent_checked", "incumbent_discriminating", "incumbent_tie", "mean_recomputed", "mean_discriminating", "step_size_checked",
            "cov_checked", "active_updates", "default_updates", "full_initial_covariance", "diagonal_initial_covariance", "roundtrip_checked",
            "roundtrip_wrapped_policy", "ties", "ties_at_mu_boundary", "nonfinite_feedback", "nan_feedback", "inf_feedback", "stop_rule_fired",
            "cem_candidates_checked", "cem_mean_recomputed", "cem_update_discriminating", "cem_mean_box_checked", "cem_history_checked", "mean_on_bound",
            "ties_at_elite_boundary", "bad_elite_rejected", "cem_stopped_on_small_variance", "train_runs", "train_final_mean_recomputed", "train_stopped"]
REQUIRED_QUICK = REQUIRED
SHRINK_LISTS = [["generations"], ["iters"], ["extra_configs"], ["episodes"]]
SHRINK_INTS = []


def make_plan(rng, tier, index):
    plan = optimsim.make_plan(rng, tier, index)
    plan["check"] = PROPERTY
    return plan


def normalise(plan):
    return plan


def shrink(plan):
    """Structural simplifications after the list shrinking: drop the side checks, then the scripted faults."""
    import json

    if plan.get("kind") == "cmaes":
        if plan.get("net") is not None and plan.get("generations"):
            p = json.loads(json.dumps(plan))
            p["net"] = None
            yield p
        if plan.get("net") is not None:
            p = json.loads(json.dumps(plan))
            p["generations"] = []
            p["extra_configs"] = []
            yield p
        if plan.get("bounds") is not None:
            p = json.loads(json.dumps(plan))
            p["bounds"] = None
            yield p
        if plan.get("cov") is not None:
            p = json.loads(json.dumps(plan))
            p["cov"] = None
            yield p


    if plan.get("kind") == "cem" and len(plan.get("lb", [])) > 1:
        for j in range(len(plan["lb"])):  # a single coordinate of the box
            p = json.loads(json.dumps(plan))
            for key in ("lb", "ub", "mean0", "var0"):
                p[key] = [plan[key][j]]
            yield p


def execute(plan):
    return optimsim.execute(plan)
