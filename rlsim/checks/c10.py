"""C10 — actions sent to the environment respect the action-space bounds."""
from rlsim import trainplan, trainsim

PROPERTY = "C10"
LEVEL = "exploration"
ENGINE = "TrainSim"
RULE = ("Seeded plans: continuous-control routine (DDPG, TD3, TD3+LAP, TD7, MR.Q, PETS) x Box bounds "
        "(symmetric, asymmetric, 1e-3, 1e3, per-dimension different) x exploration noise {0, 0.1, 0.2, 2.0} x noise_clip {0, 0.3, 0.5, 5} x "
        "policies initialised with x30 weights (tanh saturates) x scripted environment. The env checks every received action; the target "
        "critic's probe input yields the smoothed target actions; the PETS reward-model probe yields every CEM candidate. "
        "Distinct = distinct (adapter, configuration vector, bounds, fault kinds).")
REAL = ["train_* routines", "sample_actions / sample_target_actions", "DeterministicTanhPolicy", "cross_entropy_method (inside PETS)"]
STUB = ["environment (SimEnv, checks bounds)", "reward model (probe)", "sampler (recording)"]
ASSUMPTIONS = ["tolerance 1 ulp of max|bound| for policy-driven actions, 0 for sampled (warm-up) actions",
               "'any network output however large' and key-determined noise form are pure clauses and not decided here"]
TIERS = {"quick": {"runs": 64}, "thorough": {"runs": 1500}}
REQUIRED = ["actions_in_bounds", "action_on_bound", "target_actions_in_bounds", "smoothing_within_noise_clip", "planner_candidates_in_bounds", "noise0_action_equals_policy"]
REQUIRED_QUICK = ["actions_in_bounds", "target_actions_in_bounds", "planner_candidates_in_bounds"]
CHUNK = 24  # TrainSim plans per fresh worker process
SHRINK_LISTS = [["env", "script"]]
SHRINK_INTS = []
CLAUSES = ["C10.a", "C10.b", "C10.c", "C10.d", "C10.e", "C01.d"]
ADAPTERS = ["ddpg", "td3", "td3_lap", "td7", "mrq", "pets", "td3", "td3_lap"]  # SAC is not in the property's list (unsquashed Gaussian policy)


def make_plan(rng, tier, index):
    name = ADAPTERS[index % len(ADAPTERS)]
    plan = trainplan.base_plan(rng, PROPERTY, CLAUSES, name, T=rng.choice([12, 20]) if name != "pets" else 10)
    if name == "pets" and rng.random() < 0.7:
        # per-dimension different bounds and a multi-step plan: the planner's bound arrays are (horizon, action_dim)
        lo, hi = rng.choice([([-1.0, 0.0], [2.0, 0.25]), ([-2.0, -0.5], [2.0, 0.5]), ([0.5, -3.0, 10.0], [1.0, 3.0, 11.0])])
        plan["env"]["low"], plan["env"]["high"], plan["env"]["act_dim"] = lo, hi, len(lo)
        plan["cfg"]["plan_horizon"] = rng.choice([2, 3])
    plan["supply_targets"] = name in ("td3", "td3_lap") or rng.random() < 0.5
    if "learning_starts" in plan["cfg"] and name not in ("mrq", "pets"):
        plan["cfg"]["learning_starts"] = rng.choice([0, 2, 4])
    return plan


def normalise(plan):
    return trainplan.sanitize(plan)


def execute(plan):
    return trainsim.execute(plan)
