"""C10 — actions sent to the environment respect the action-space bounds."""
from rlsim import trainplan, trainsim

PROPERTY = "C10"
LEVEL = "exploration"
ENGINE = "TrainSim"
RULE = ("Seeded plans: continuous-control routine (DDPG, TD3, TD3+LAP, TD7, MR.Q, PETS) x Box bounds "
        "(symmetric, asymmetric, 1e-3, 1e3, per-dimension different) x exploration noise {0, 0.1, 0.2, 2.0} x noise_clip {0, 0.3, 0.5, 5} x "
        "policies initialised with x30 weights (tanh saturates) x scripted environment. The env checks every received action; the target "
        "critic's probe input yields the smoothed target actions; the PETS reward-model probe yields every CEM candidate. "
        "Additional plans: the routine (DDPG, TD3, TD3+LAP, TD7) is given RescaleAction(SimEnv) - a wrapper that changes the action space - and every action it passes to that environment must lie in that environment's action space (recording layer outside the wrapper). PETS with the reward optimum on an action bound (box excluding 0), a single elite and one CEM iteration per MPC call. The target-action monitor (C10.b/c) covers TD3, TD3+LAP and TD7. " "Distinct = distinct (adapter, configuration vector, bounds, fault kinds).")
REAL = ["train_* routines", "sample_actions / sample_target_actions", "DeterministicTanhPolicy", "cross_entropy_method (inside PETS)"]
STUB = ["environment (SimEnv, checks bounds)", "reward model (probe)", "sampler (recording)"]
ASSUMPTIONS = ["tolerance 1 ulp of max|bound| for policy-driven actions, 0 for sampled (warm-up) actions",
               "'any network output however large' and key-determined noise form are pure clauses and not decided here"]
TIERS = {"quick": {"runs": 168}, "thorough": {"runs": 2400}}
REQUIRED = ["actions_in_bounds", "action_on_bound", "target_actions_in_bounds", "smoothing_within_noise_clip", "planner_candidates_in_bounds", "noise0_action_equals_policy", "noise_scale_samples", "other_bounds_trained_first_in_process"]
REQUIRED_QUICK = ["actions_in_bounds", "target_actions_in_bounds", "planner_candidates_in_bounds"]
CHUNK = 24  # TrainSim plans per fresh worker process
SHRINK_LISTS = [["env", "script"]]
SHRINK_INTS = []
CLAUSES = ["C10.a", "C10.b", "C10.c", "C10.d", "C10.e", "C10.f", "C01.d"]
ADAPTERS = ["ddpg", "td3", "td3_lap", "td7", "mrq", "pets", "td3", "td3_lap"]  # SAC is not in the property's list (unsquashed Gaussian policy)


BASE = {"quick": 128, "thorough": 2000}  # additive extension: plans below these indices are those of the earlier tiers


def make_planner_bound_plan(rng):
    """PETS with the optimum of the (scripted) reward ON an action bound (box that excludes 0), a single elite and one CEM
    iteration per MPC call: the planner's mean is then pulled towards the bound as hard as it ever is."""
    plan = trainplan.base_plan(rng, PROPERTY, CLAUSES, "pets", T=rng.choice([10, 12]))
    lo, hi = rng.choice([([0.5], [3.0]), ([-3.0], [-0.5]), ([0.5, -3.0, 10.0], [1.0, 3.0, 11.0]), ([1.0, -4.0], [3.0, -2.5])])
    plan["env"]["low"], plan["env"]["high"], plan["env"]["act_dim"] = lo, hi, len(lo)
    plan["cfg"]["n_opt_iter"] = 1
    plan["cfg"]["plan_horizon"] = rng.choice([1, 2, 3])
    plan["cfg"]["learning_starts"] = rng.choice([4, 5])
    plan["cfg"]["batch_size"] = 2
    plan["supply_targets"] = False
    return plan


BASE2 = {"quick": 152, "thorough": 2200}  # second additive extension


def make_wrapped_plan(rng):
    """The routine is given RescaleAction(SimEnv): its action space is [-1, 1] while the unwrapped box is something else."""
    name = rng.choice(["ddpg", "td3", "td3_lap", "td7"])
    plan = trainplan.base_plan(rng, PROPERTY, ["C10.wrap"], name, T=rng.choice([12, 20]))
    lo, hi = rng.choice([(-2.0, 2.0), (-5.0, 5.0), (0.5, 3.0), (-3.0, -0.5)])
    plan["env"]["low"], plan["env"]["high"] = lo, hi
    plan["env"]["rescale"] = True
    c = plan["cfg"]
    c["learning_starts"] = rng.choice([0, 2, 4])
    c["exploration_noise"] = rng.choice([0.2, 1.0, 2.0])
    c["init_scale"] = rng.choice([1.0, 30.0])
    plan["supply_targets"] = False
    plan["logger"] = False
    plan["monitor"] = False
    return plan


def make_plan(rng, tier, index):
    if index >= BASE2.get(tier, 10**9):
        return make_wrapped_plan(rng)
    if index >= BASE.get(tier, 10**9):
        return make_planner_bound_plan(rng)
    name = ADAPTERS[index % len(ADAPTERS)]
    plan = trainplan.base_plan(rng, PROPERTY, CLAUSES, name, T=rng.choice([12, 20]) if name != "pets" else 10)
    if name == "pets" and rng.random() < 0.7:
        # per-dimension different bounds and a multi-step plan: the planner's bound arrays are (horizon, action_dim)
        lo, hi = rng.choice([([-1.0, 0.0], [2.0, 0.25]), ([-2.0, -0.5], [2.0, 0.5]), ([0.5, -3.0, 10.0], [1.0, 3.0, 11.0])])
        plan["env"]["low"], plan["env"]["high"], plan["env"]["act_dim"] = lo, hi, len(lo)
        plan["cfg"]["plan_horizon"] = rng.choice([2, 3])
    if name in ("ddpg", "td3", "td3_lap", "td7", "mrq") and rng.random() < 0.25:
        ad = plan["env"]["act_dim"]
        wide = ([-50.0] * ad, [80.0] * ad)
        plan["prerun_bounds"] = wide
        plan["cfg"]["learning_starts"] = min(plan["cfg"].get("learning_starts", 2), 3) if name != "mrq" else plan["cfg"]["learning_starts"]
    plan["supply_targets"] = name in ("td3", "td3_lap") or rng.random() < 0.5
    if "learning_starts" in plan["cfg"] and name not in ("mrq", "pets"):
        plan["cfg"]["learning_starts"] = rng.choice([0, 2, 4])
    if name in ("ddpg", "td3", "td3_lap") and rng.random() < 0.5:
        # plans that feed the pooled noise-scale statistic: moderate noise, wide clip, unsaturated policy
        plan["cfg"].update(exploration_noise=rng.choice([0.1, 0.2]), noise_clip=5.0, init_scale=1.0)
        if "target_policy_noise" in plan["cfg"] or name == "td3_lap":
            plan["cfg"]["target_policy_noise"] = rng.choice([0.1, 0.2])
    return plan


def chi2_band(n, p=1e-9):
    """Wilson-Hilferty quantiles of chi2_n / n at tail probability p on each side (z = 6.0 ~ 1e-9)."""
    import math
    z = 6.0
    a = 1 - 2 / (9 * n)
    b = math.sqrt(2 / (9 * n))
    return max(0.0, (a - z * b)) ** 3, (a + z * b) ** 3


def finalize(records):
    """C10.f: pooled over the tier, the standardised perturbations (a - pi(o)) / (sigma * half range) of un-clipped
    exploration actions, and of un-clipped target-smoothing perturbations, have mean 0 and variance 1."""
    import math
    out = []
    for key, what in (("noise_z", "exploration"), ("smooth_z", "target-smoothing")):
        zs, idx = [], []
        for r in records:
            z = r.get("extra", {}).get(key)
            if z:
                zs += z
                idx.append(r["index"])
        n = len(zs)
        if n < 200:
            continue
        m = sum(zs) / n
        v = sum((x - m) ** 2 for x in zs) / (n - 1)
        lo, hi = chi2_band(n - 1)
        if abs(m) > 6 / math.sqrt(n) or not (lo <= v <= hi):
            out.append({"clause": "C10.f", "site": what + "_noise_scale", "indices": idx,
                        "detail": f"{what} perturbations standardised by (noise level x half action range), pooled over {len(idx)} runs / {n} un-clipped components: mean {m:.3f} (|.| <= {6 / math.sqrt(n):.3f}), variance {v:.3f} (band {lo:.3f}..{hi:.3f}); expected standard normal"})
    return out


def normalise(plan):
    return trainplan.sanitize(plan)


def execute(plan):
    if plan.get("prerun_bounds"):
        # same routine, same shapes and noise settings, but ANOTHER action box, trained briefly first in this process:
        # what the second run sends to its environment must respect ITS bounds (no state may leak between runs)
        import json
        pre = json.loads(json.dumps(plan))
        pre.pop("prerun_bounds")
        pre["env"]["low"], pre["env"]["high"] = plan["prerun_bounds"]
        pre["chain"] = [dict(pre["chain"][0], total_timesteps=min(pre["chain"][0]["total_timesteps"], 8))]
        pre["clauses"] = []
        trainsim.execute(pre)
        res = trainsim.execute(plan)
        res.fault("other_bounds_trained_first_in_process")
        return res
    return trainsim.execute(plan)
