"""C13 — policy heads ... loop-level clause only: value-based training loops act greedily on
their current estimates except with the configured / scheduled exploration probability."""
import math

from rlsim import tabsim, trainplan, trainsim

PROPERTY = "C13"
LEVEL = "exploration"
ENGINE = "TrainSim (DQN family) + TabularSim"
RULE = ("Seeded plans. DQN family (train_dqn / nature_dqn / ddqn / ddqn_per) on SimEnv: at every env.step where the recording sampler was "
        "NOT invoked the received action must be an arg-max of the live Q-network's output on the current observation (probe), and on "
        "warm-up steps the sampler value must be what the env received; the number of sampler-driven steps after warm-up is compared with "
        "the documented schedule (1.0 -> 0.1 over the first 10 %, then 0.1) by an exact Poisson-binomial tail at 1e-9, per run and pooled "
        "over the tier. Tabular learners on SimTabEnv: epsilon=0 => every action is an arg-max of the lock-step reference table; "
        "epsilon=1 => twin runs with different tables and equal seed take identical actions, pooled action frequencies uniform. "
        "Distinct = distinct (routine, configuration vector, fault kinds).")
REAL = ["train_dqn/nature_dqn/ddqn/ddqn_per", "q_policy.greedy_policy", "schedules.linear_schedule", "tabular train_* routines", "value_policy"]
STUB = ["environment", "action-space sampler (recording)"]
ASSUMPTIONS = ["only the loop-level clause of C13 is decided; closed-form log-probabilities, entropies and sampling forms are pure and not addressed",
               "greedy accepted if Q[a] >= max Q - 1e-6*(1+|max Q|)"]
TIERS = {"quick": {"runs": 200}, "thorough": {"runs": 4000}}
REQUIRED = ["resumed_with_global_step", "greedy_steps", "sampled_action_passed_through", "tabular_greedy_steps", "eps1_twin_runs", "exploration_counts"]
REQUIRED_QUICK = REQUIRED
CHUNK = 24  # TrainSim plans per fresh worker process
SHRINK_LISTS = [["env", "script"], ["script"]]
SHRINK_INTS = []
DQN = ["dqn", "nature_dqn", "ddqn", "ddqn_per"]
TAB = ["q_learning", "sarsa", "monte_carlo", "dynaq", "double_q_learning"]


def eps_schedule(T):
    n = int(T * 0.1)
    out = []
    for s in range(T):
        if s < n:
            out.append(1.0 + (0.1 - 1.0) * (s / (n - 1) if n > 1 else 0.0))
        else:
            out.append(0.1)
    return out


def pb_tails(ps, k):
    """Exact Poisson-binomial P(K<=k), P(K>=k)."""
    dist = [1.0]
    for p in ps:
        nd = [0.0] * (len(dist) + 1)
        for i, v in enumerate(dist):
            nd[i] += v * (1 - p)
            nd[i + 1] += v * p
        dist = nd
    return sum(dist[: k + 1]), sum(dist[k:])


def make_plan(rng, tier, index):
    if index % 2 == 0:
        name = DQN[(index // 2) % len(DQN)]
        plan = trainplan.base_plan(rng, PROPERTY, ["C13.a", "C13.b", "C01.d"], name, T=rng.choice([30, 40, 60]))
        plan["kind"] = "dqn"
        plan["logger"] = False
        T = plan["chain"][0]["total_timesteps"]
        plan["start_step"] = rng.choice([0, T // 4, T // 3, T // 2])  # a run continued with global_step > 0 keeps the schedule position
        return plan
    algo = TAB[(index // 2) % len(TAB)]
    plan = tabsim.make_tab_plan(rng, algo, rng.choice([5, 10, 20, 40]))
    plan["epsilon"] = rng.choice([0.0, 1.0])
    plan["n_planning_steps"] = 0
    plan.update(check=PROPERTY, clauses=["C13.c", "C13.d"], kind="tab")
    return plan


def normalise(plan):
    return plan


def execute(plan):
    if plan.get("kind") == "tab":
        return tabsim.execute(plan)
    res = trainsim.TrainRun(plan)
    out = res.run()
    # exploration accounting for C13.b
    env = res.env
    T = plan["chain"][0]["total_timesteps"]
    ls = plan["cfg"].get("learning_starts", 0) if plan["adapter"] != "dqn" else 0
    eps = eps_schedule(T)
    ps, k = [], 0
    start = plan.get("start_step", 0)
    if start:
        out.fault("resumed_with_global_step")
    for s in env.steps():
        i = start + s["i"]
        if i >= ls and i < T:
            ps.append(eps[i])
            k += 1 if s["sampled"] else 0
        elif i < ls and not s["sampled"] and "C13.a" in plan["clauses"]:
            out.violate("C13.a", "train_" + plan["adapter"], f"step {i} < learning_starts={ls} did not use the sampler")
    if start:
        # window right after a resume: the schedule position must be the GLOBAL step (a restarted schedule explores with eps ~ 1 here)
        n_tr = max(1, int(T * 0.1))
        w = [s for s in env.steps() if start + s["i"] >= ls and s["i"] < n_tr and start + s["i"] < T]
        if w:
            out.extra["resume_window"] = {"ps": [eps[start + s["i"]] for s in w], "k": sum(1 for s in w if s["sampled"]), "site": "train_" + plan["adapter"] + "_resumed"}
    if ps:
        lo, hi = pb_tails(ps, k)
        out.extra["explore"] = {"ps": ps, "k": k}
        out.probe("exploration_counts")
        if min(lo, hi) < 1e-9:
            out.violate("C13.b", "train_" + plan["adapter"], f"{k} exploratory steps among {len(ps)} post-warm-up steps; the documented schedule gives expectation {sum(ps):.2f} (tail probability {min(lo, hi):.2g})")
    return out


def finalize(records):
    """Pooled statistics over the tier (deterministic for a given VERIF_SEED)."""
    out = []
    ps, k, idx = [], 0, []
    for r in records:
        e = r.get("extra", {}).get("explore")
        if e:
            ps += e["ps"]
            k += e["k"]
            idx.append(r["index"])
    if ps:
        lo, hi = pb_tails(ps, k) if len(ps) < 4000 else normal_tails(ps, k)
        if min(lo, hi) < 1e-9:
            out.append({"clause": "C13.b", "site": "dqn_family_pooled", "indices": idx,
                        "detail": f"pooled over {len(idx)} runs: {k} exploratory steps among {len(ps)}, expectation {sum(ps):.1f} (tail {min(lo, hi):.2g})"})
    groups = {}
    for r in records:
        e = r.get("extra", {}).get("resume_window")
        if e:
            for g in ("dqn_family_resumed", e.get("site", "dqn_family_resumed")):
                groups.setdefault(g, [[], 0, []])
                groups[g][0] += e["ps"]
                groups[g][1] += e["k"]
                groups[g][2].append(r["index"])
    for g, (ps, k, idx) in sorted(groups.items()):
        lo, hi = pb_tails(ps, k)
        if min(lo, hi) < 1e-9:
            out.append({"clause": "C13.b", "site": g, "indices": idx,
                        "detail": f"first steps after resuming with global_step > 0, pooled over {len(idx)} runs: {k} exploratory steps among {len(ps)}, the schedule at the global step gives expectation {sum(ps):.1f} (tail {min(lo, hi):.2g})"})
    # epsilon=1: pooled action frequencies uniform (chi-square, threshold 1e-9 via Wilson-Hilferty)
    by_n = {}
    for r in records:
        a = r.get("extra", {}).get("eps1_actions")
        if a:
            by_n.setdefault(r["extra"]["n_actions"], [[], []])
            by_n[r["extra"]["n_actions"]][0] += a
            by_n[r["extra"]["n_actions"]][1].append(r["index"])
    for n, (acts, idxs) in sorted(by_n.items()):
        N = len(acts)
        if N < 50 * n:
            continue
        chi = sum((acts.count(a) - N / n) ** 2 / (N / n) for a in range(n))
        df = n - 1
        z = ((chi / df) ** (1 / 3) - (1 - 2 / (9 * df))) / math.sqrt(2 / (9 * df))
        if z > 6.0:  # ~1e-9
            out.append({"clause": "C13.d", "site": f"tabular_eps1_{n}_actions", "indices": idxs,
                        "detail": f"epsilon=1 action frequencies over {N} steps are not uniform: {[acts.count(a) for a in range(n)]} (chi2={chi:.1f}, df={df})"})
    return out


def normal_tails(ps, k):
    m = sum(ps)
    v = sum(p * (1 - p) for p in ps)
    z = (k - m) / math.sqrt(max(v, 1e-12))
    lo = 0.5 * math.erfc(-z / math.sqrt(2))
    hi = 0.5 * math.erfc(z / math.sqrt(2))
    return lo, hi
