"""C04 — sampled sub-trajectories are contiguous single-episode runs."""
from rlsim import buffersim

PROPERTY = "C04"
LEVEL = "exploration"
ENGINE = "BufferSim"
RULE = (
    "Seeded swarm plans on SubtrajectoryReplayBuffer / SubtrajectoryReplayBufferPER (optionally inside MultiTaskReplayBuffer): "
    "capacity horizon+1..16, storage horizon 1-4, episode styles (long / short / one-step / mixed / never ending) with "
    "terminated, truncated and terminated+truncated ends; after plan-chosen operations ALL admissible starts are enumerated "
    "through the generator seam (uniform: integers() answered with consecutive offsets; prioritised: equidistant grid of variates), "
    "for sampling horizons 1..storage horizon, with and without intermediates (same starts for both views). Every window is "
    "decoded from its tags and checked. Distinct = distinct (class, tasks, capacity, horizon, shapes, fill class, laps, op kinds, fault kinds)."
)
REAL = ["SubtrajectoryReplayBuffer", "SubtrajectoryReplayBufferPER", "MultiTaskReplayBuffer", "PriorityBuffer", "pickle"]
STUB = ["numpy.random.Generator (StubGenerator / real seeded Generator)"]
ASSUMPTIONS = [
    "rows after the first terminated step of a window are only required to be stored rows (the property scopes contiguity to 'up to and including the first terminated step')",
    "completeness of the admissible-start set is reported as a probe, not demanded",
    "prioritised variant is only sampled when the documented enabling rule guarantees an admissible start among the certainly retained rows",
]
TIERS = {"quick": {"runs": 1600}, "thorough": {"runs": 60000}}
REQUIRED = ["training_windows_checked", "start_enumerations", "windows_checked", "first_wrap", "multi_lap", "one_step_episode", "episode_shorter_than_horizon", "term+trunc", "trunc_right_after_wrap"]
REQUIRED_QUICK = REQUIRED
SHRINK_LISTS = [["ops"], ["env", "script"]]
CHUNK = 300
SHRINK_INTS = [(["n_tasks"], 0), (["obs_dim"], 0), (["act_dim"], 0)]
CLAUSES = ["window", "trunc", "written", "reduced", "task"]


def make_plan(rng, tier, index):
    if index % 100 == 99:
        # inside training: train_mrq with the buffer it creates itself; every sampled window is checked against the env log
        from rlsim import trainplan
        plan = trainplan.base_plan(rng, PROPERTY, ["C04.train"], "mrq", T=rng.choice([24, 30]))
        plan["kind"] = "train"
        plan["default_buffer"] = True
        plan["logger"] = False
        plan["env"]["script"] = trainplan.make_script(rng, 40, style=rng.choice(["short", "mixed"]))
        for e in plan["env"]["script"]:
            e["end"] = rng.choice(["term", "trunc", "trunc"])
        plan["env"]["script"].insert(0, {"len": rng.choice([5, 6, 7]), "end": "term"})
        c = plan["cfg"]
        c["learning_starts"] = rng.choice([8, 10])
        c["buffer_size"] = rng.choice([16, 24, 1000])
        return plan
    cls = rng.choice(["SubtrajectoryReplayBuffer", "SubtrajectoryReplayBuffer", "SubtrajectoryReplayBufferPER"])
    n_tasks = rng.choice([0, 0, 0, 0, 1, 2])
    H = rng.choice([1, 1, 2, 2, 3, 4])
    cap = rng.choice([H + 1, H + 1, H + 2, H + 3, 2 * H + 1, 6, 8, 11, 16])
    cap = max(cap, H + 1)
    plan = {
        "check": PROPERTY, "clauses": CLAUSES, "family": "sub", "cls": cls, "n_tasks": n_tasks,
        "capacity": cap, "horizon": H, "obs_dim": rng.choice([0, 1, 2, 3]), "act_dim": rng.choice([0, 1, 2]),
        "discrete": rng.random() < 0.3, "dtype": rng.choice(["default", "default", "f32"]),
        "gen": "stub" if rng.random() < 0.85 else "real", "gen_seed": rng.randrange(2**31),
    }
    n_ops = rng.choice([8, 15, 30, 50, 80])
    prio = cls.endswith("PER")
    ops = buffersim.gen_ops(rng, "sub", prio, n_tasks, cap, H, n_ops, False)
    plan["ops"] = [o for o in ops if o[0] not in ("reset_max",)]
    return plan


def normalise(plan):
    return plan


def execute(plan):
    if plan.get("kind") == "train":
        from rlsim import trainsim
        return trainsim.execute(plan)
    return buffersim.execute(plan)
