"""CheckpointSim: TD7's deferred-training / checkpoint assessment state machine driven by
scripted (episode length, episode return) histories, against a reference model."""
from __future__ import annotations

from .core import Result, raised_by_code_under_test


class AssessRef:
    """Reference: assessment windows, conservation of released steps, 'only improve'."""

    def __init__(self, max_eps, threshold, reset_weight):
        self.N, self.thr, self.w = max_eps, threshold, reset_weight
        self.window = []  # returns of the episodes of the current window
        self.steps = 0  # env steps collected in the current window
        self.max_eps = 1
        self.best = -1e8
        self.switches = 0

    def episode(self, length, ret, epoch):
        """-> (update_checkpoint, released, cut_short)"""
        self.window.append(ret)
        self.steps += length
        update, released, cut = False, 0, False
        if min(self.window) < self.best:
            released, cut = self.steps, True
        elif len(self.window) == self.max_eps:
            self.best = min(self.window)
            update, released = True, self.steps
        if released > 0:
            if epoch < self.thr <= epoch + released:
                self.best *= self.w
                self.max_eps = self.N
                self.switches += 1
            self.window, self.steps = [], 0
        return update, released, cut


def execute(plan):
    from rl_blox.blox.checkpointing import CheckpointState, assess_performance_and_checkpoint

    res = Result()
    site = "assess_performance_and_checkpoint"
    st = CheckpointState()
    ref = AssessRef(plan["max_eps"], plan["threshold"], plan["reset_weight"])
    epoch = plan["epoch0"]
    total_len = total_released = 0
    n_updates = 0
    for i, (L, R) in enumerate(plan["episodes"]):
        exp = ref.episode(L, R, epoch)
        try:
            upd, released = assess_performance_and_checkpoint(st, L, R, epoch, plan["reset_weight"], plan["max_eps"], plan["threshold"])
        except Exception as e:
            if not raised_by_code_under_test(e):
                raise
            res.violate("C15.raise", site, f"episode {i}: {type(e).__name__}: {e}")
            break
        total_len += L
        total_released += released
        res.log.add(i, L, R, epoch, bool(upd), int(released))
        if int(released) != exp[1]:
            res.violate("C15.a", site, f"episode {i} (len {L}, return {R}, epoch {epoch}): released {released} training iterations, the window collected {exp[1]} steps (cut_short={exp[2]}, window size {ref.max_eps})")
            break
        if bool(upd) != exp[0]:
            kind = "C15.c" if not exp[2] else "C15.d"
            res.violate(kind, site, f"episode {i} (return {R}): update_checkpoint={bool(upd)}, reference {exp[0]} (best minimum so far {ref.best}, cut_short={exp[2]})")
            break
        pending = st.timesteps_since_upate
        if total_released + pending != total_len:
            res.violate("C15.a", site, f"after episode {i}: released {total_released} + pending {pending} != collected {total_len}")
            break
        if released > 0 and (st.episodes_since_udpate != 0 or st.timesteps_since_upate != 0 or st.min_return != 1e8):
            res.violate("C15.b", site, f"after a release the window counters are not reset: {st}")
            break
        if st.max_episodes_before_update != ref.max_eps:
            res.violate("C15.e", site, f"after episode {i} (epoch {epoch}->{epoch + released}, threshold {plan['threshold']}): window size {st.max_episodes_before_update}, reference {ref.max_eps}")
            break
        if abs(st.best_min_return - ref.best) > 1e-9 * (1 + abs(ref.best)):
            res.violate("C15.c", site, f"after episode {i}: best minimum return {st.best_min_return}, reference {ref.best}")
            break
        epoch += int(released)
        if upd:
            n_updates += 1
            res.probe("checkpoint_updates")
        if exp[2]:
            res.fault("assessment_cut_short")
        if released:
            res.probe("releases")
        if exp[1] and ref.switches and released and ref.max_eps == plan["max_eps"] and plan["max_eps"] > 1:
            pass
    if ref.switches:
        res.fault("window_switch")
        if ref.switches > 1:
            res.violate("C15.e", site, "reference switched more than once (harness error)")
    if len({r for _, r in plan["episodes"]}) < len(plan["episodes"]):
        res.fault("equal_returns")
    if plan["threshold"] == 0:
        res.fault("threshold_0")
    res.simt("episodes", len(plan["episodes"]))
    res.simt("env_steps", total_len)
    res.signature = f"{plan['max_eps']}|{plan['threshold']}|{plan['reset_weight']}|{plan['epoch0']}|{len(plan['episodes'])}|{n_updates}|{','.join(sorted(res.faults))}"
    return res


def make_plan(rng):
    n = rng.choice([1, 2, 3, 5, 8, 15, 30, 60])
    style = rng.choice(["rising", "falling", "oscillating", "equal", "random", "negative"])
    eps = []
    base = rng.choice([-50.0, -1.0, 0.0, 1.0, 10.0])
    for i in range(n):
        L = rng.choice([1, 1, 2, 3, 5, 10, 40])
        if style == "rising":
            R = base + i
        elif style == "falling":
            R = base - i
        elif style == "oscillating":
            R = base + (1 if i % 2 else -1) * rng.choice([0.5, 1.0, 3.0])
        elif style == "equal":
            R = base
        elif style == "negative":
            R = -abs(base) - rng.choice([0.0, 1.0, 2.0, 2.0, 5.0])
        else:
            R = rng.choice([-3.0, -1.0, 0.0, 0.0, 1.0, 2.0, 2.0, 5.0])
        eps.append([L, float(R)])
    return {"episodes": eps, "max_eps": rng.choice([1, 2, 3, 5, 20]), "threshold": rng.choice([0, 1, 3, 10, 25, 100, 10**6]),
            "reset_weight": rng.choice([0.5, 0.9, 1.0, 1.5, 0.0]), "epoch0": rng.choice([0, 0, 0, 2, 9, 30])}
