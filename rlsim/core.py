"""Core of the deterministic simulator: seeds, event log, runner, minimiser,
replay files, known findings, evidence.

Contract of a check module (rlsim/checks/cXX.py):

    PROPERTY      "C02"
    LEVEL         "exploration" | "fault_enumeration"
    ENGINE        free text
    RULE          how plans are generated / what a distinct non-trivial case is
    REAL, STUB    component lists for evidence
    ASSUMPTIONS   list[str]
    TIERS         {"quick": {"runs": int}, "thorough": {"runs": int}}
    REQUIRED      names of reach probes / fault kinds that must be > 0 over a tier
    make_plan(rng: random.Random, tier: str, index: int) -> dict      (pure)
    execute(plan: dict) -> Result                                    (draws nothing)
    shrink(plan) -> iterable of simpler plans                        (optional)

One integer (VERIF_SEED) decides every plan; execute() must not draw from any
unplanned source.  The plan is the replay file.
"""

from __future__ import annotations

import hashlib
import importlib
import json
import os
import random
import signal
import subprocess
import sys
import time
import traceback

VERIF = os.path.dirname(os.path.dirname(os.path.abspath(__file__)))
REPO = os.environ.get("RLSIM_REPO", "/repo")
PY = sys.executable


def setup_env():
    """Process-wide settings every simulated run relies on (set before jax import)."""
    os.environ.setdefault("JAX_PLATFORMS", "cpu")
    os.environ.setdefault("OMP_NUM_THREADS", "1")
    os.environ.setdefault("OPENBLAS_NUM_THREADS", "1")
    os.environ.setdefault("MKL_NUM_THREADS", "1")
    os.environ.setdefault(
        "XLA_FLAGS",
        "--xla_cpu_multi_thread_eigen=false intra_op_parallelism_threads=1",
    )
    os.environ.setdefault("TQDM_DISABLE", "1")
    os.environ.setdefault("TF_CPP_MIN_LOG_LEVEL", "3")
    os.environ.setdefault("RL_BLOX_VERIF", "1")
    cache = os.environ.get("RLSIM_JAX_CACHE")
    if cache:
        os.environ.setdefault("JAX_COMPILATION_CACHE_DIR", cache)
        os.environ.setdefault("JAX_PERSISTENT_CACHE_MIN_COMPILE_TIME_SECS", "0.3")
    if REPO not in sys.path:
        sys.path.insert(0, REPO)


def derive_seed(*parts) -> int:
    h = hashlib.sha256("/".join(str(p) for p in parts).encode()).digest()
    return int.from_bytes(h[:8], "big")


# --------------------------------------------------------------------------
# event log


def _canon(o):
    import numpy as np

    if isinstance(o, np.ndarray):
        return {"nd": o.dtype.str, "sh": list(o.shape), "h": hashlib.sha256(np.ascontiguousarray(o).tobytes()).hexdigest()[:16]}
    if isinstance(o, (np.integer,)):
        return int(o)
    if isinstance(o, (np.floating,)):
        return float(o).hex()
    if isinstance(o, float):
        return o.hex()
    if isinstance(o, (np.bool_,)):
        return bool(o)
    if isinstance(o, (set, frozenset)):
        return sorted(o)
    if isinstance(o, bytes):
        return hashlib.sha256(o).hexdigest()[:16]
    if hasattr(o, "__array__"):
        return _canon(np.asarray(o))
    return repr(o)


class EventLog:
    """Append-only log; digest is SHA-256 over canonical JSON of every event.
    Never touches a PRNG or a clock."""

    def __init__(self, keep: int = 0):
        self._h = hashlib.sha256()
        self.n = 0
        self.keep = keep
        self.events = []

    def add(self, *items):
        s = json.dumps(items, default=_canon, sort_keys=True)
        self._h.update(s.encode())
        self._h.update(b"\n")
        self.n += 1
        if self.keep and len(self.events) < self.keep:
            self.events.append(s)

    def digest(self) -> str:
        return self._h.hexdigest()


class Result:
    """Outcome of executing one plan."""

    def __init__(self):
        self.log = EventLog(keep=int(os.environ.get("RLSIM_LOG_KEEP", "0")))
        self.violations = []  # dicts: clause, site, detail
        self.faults = {}  # fault kind -> fired count
        self.probes = {}  # reach probe -> count
        self.sim = {}  # simulated time measures (steps, ops, seconds)
        self.signature = ""  # schedule signature / abstract state string
        self.unchecked = 0
        self.extra = {}

    def fault(self, kind, n=1):
        self.faults[kind] = self.faults.get(kind, 0) + n

    def probe(self, name, n=1):
        self.probes[name] = self.probes.get(name, 0) + n

    def simt(self, name, n=1):
        self.sim[name] = self.sim.get(name, 0) + n

    def violate(self, clause, site, detail, **kw):
        if len(self.violations) < 20:
            d = {"clause": clause, "site": site, "detail": str(detail)[:600]}
            d.update(kw)
            self.violations.append(d)

    def classes(self):
        return sorted({(v["clause"], v["site"]) for v in self.violations})

    def to_json(self):
        return {
            "digest": self.log.digest(),
            "events": self.log.n,
            "violations": self.violations,
            "faults": self.faults,
            "probes": self.probes,
            "sim": self.sim,
            "signature": self.signature,
            "unchecked": self.unchecked,
            "extra": self.extra,
        }


class HarnessError(Exception):
    pass


def raised_by_code_under_test(exc) -> bool:
    """True iff the traceback of `exc` passes through a frame of the repository under
    test.  An exception raised at the call boundary (wrong signature, missing
    attribute: innermost frame is the harness) is a harness error, never a violation."""
    import traceback as _tb

    root = os.path.realpath(REPO) + os.sep
    for fs in _tb.extract_tb(exc.__traceback__):
        if os.path.realpath(fs.filename).startswith(root):
            return True
    return False


# --------------------------------------------------------------------------
# known findings


def load_findings():
    p = os.path.join(VERIF, "known_findings.json")
    if not os.path.exists(p):
        return []
    with open(p) as f:
        return json.load(f)["findings"]


def match_finding(findings, prop, clause, site):
    for f in findings:
        if f.get("status") != "known":
            continue  # "fixed" entries suppress nothing
        if f["property"] == prop and f["clause"] == clause and f["site"] == site:
            return f
    return None


# --------------------------------------------------------------------------
# executing a plan with a hang guard


class _Timeout(BaseException):
    pass


def _alarm(signum, frame):
    raise _Timeout()


def run_plan(mod, plan, limit_s=300):
    """Execute one plan; returns result json.  Exceptions inside execute are
    harness errors (never violations)."""
    old = signal.signal(signal.SIGALRM, _alarm)
    signal.alarm(int(limit_s))
    try:
        res = mod.execute(plan)
        return res.to_json()
    finally:
        signal.alarm(0)
        signal.signal(signal.SIGALRM, old)


def get_check(prop):
    return importlib.import_module(f"rlsim.checks.{prop.lower()}")


# --------------------------------------------------------------------------
# minimisation: generic ddmin over the lists / ints a check declares


def _get(plan, path):
    o = plan
    for k in path:
        o = o[k]
    return o


def _set(plan, path, val):
    o = plan
    for k in path[:-1]:
        o = o[k]
    o[path[-1]] = val


def minimise(mod, plan, target_classes, budget_s=90, max_exec=300):
    """Shrink `plan` while some violation class in target_classes persists."""
    t0 = time.time()
    n_exec = 0
    best = json.loads(json.dumps(plan))

    def still(p):
        nonlocal n_exec
        if time.time() - t0 > budget_s or n_exec >= max_exec:
            return False
        n_exec += 1
        try:
            r = run_plan(mod, p, limit_s=120)
        except BaseException:
            return False
        cl = {(v["clause"], v["site"]) for v in r["violations"]}
        return bool(cl & target_classes)

    lists = getattr(mod, "SHRINK_LISTS", [])
    ints = getattr(mod, "SHRINK_INTS", [])
    norm = getattr(mod, "normalise", lambda p: p)
    changed = True
    rounds = 0
    while changed and rounds < 4 and time.time() - t0 < budget_s:
        changed = False
        rounds += 1
        for path in lists:
            try:
                seq = list(_get(best, path))
            except (KeyError, IndexError, TypeError):
                continue
            n = 2
            while len(seq) >= 1 and time.time() - t0 < budget_s and n_exec < max_exec:
                chunk = max(1, len(seq) // n)
                reduced = False
                for i in range(0, len(seq), chunk):
                    cand_seq = seq[:i] + seq[i + chunk:]
                    cand = json.loads(json.dumps(best))
                    _set(cand, path, cand_seq)
                    cand = norm(cand)
                    if still(cand):
                        best = cand
                        seq = list(_get(best, path))
                        n = max(n - 1, 2)
                        reduced = True
                        changed = True
                        break
                if not reduced:
                    if chunk == 1:
                        break
                    n = min(len(seq), n * 2)
        for path, lo in ints:
            try:
                v = _get(best, path)
            except (KeyError, IndexError, TypeError):
                continue
            if not isinstance(v, int):
                continue
            for cand_v in sorted({lo, (v + lo) // 2, v - 1}):
                if cand_v >= v or cand_v < lo:
                    continue
                cand = json.loads(json.dumps(best))
                _set(cand, path, cand_v)
                cand = norm(cand)
                if still(cand):
                    best = cand
                    changed = True
                    break
        if hasattr(mod, "shrink"):
            for cand in mod.shrink(best):
                if time.time() - t0 > budget_s or n_exec >= max_exec:
                    break
                cand = norm(cand)
                if still(cand):
                    best = cand
                    changed = True
    return best, n_exec


# --------------------------------------------------------------------------
# shard worker (runs in a spawned process)


def shard_worker(args):
    prop, verif_seed, tier, indices, deadline, minimise_budget = args
    setup_env()
    import faulthandler

    faulthandler.enable()
    mod = get_check(prop)
    findings = load_findings()
    out = []
    minimised_classes = set()
    for idx in indices:
        if deadline and time.time() > deadline:
            break
        seed = derive_seed(prop, verif_seed, tier, idx)
        rng = random.Random(seed)
        plan = mod.make_plan(rng, tier, idx)
        plan["_seed"] = seed
        plan["_index"] = idx
        t0 = time.time()
        try:
            r = run_plan(mod, plan, limit_s=getattr(mod, "PLAN_LIMIT_S", 300))
        except BaseException as e:  # harness error: never a violation
            out.append({"index": idx, "seed": seed, "error": "".join(traceback.format_exception(e))[-3000:], "plan": plan})
            if isinstance(e, _Timeout):
                n_timeouts = sum(1 for o in out if "error" in o and "_Timeout" in o["error"])
                if n_timeouts >= 2:
                    break  # the code under test hangs; do not burn the whole budget on it
            continue
        rec = {
            "index": idx,
            "seed": seed,
            "digest": r["digest"],
            "faults": r["faults"],
            "probes": r["probes"],
            "sim": r["sim"],
            "signature": r["signature"],
            "unchecked": r["unchecked"],
            "extra": r["extra"] if len(json.dumps(r["extra"], default=_canon)) < 20000 else {},
            "wall": time.time() - t0,
            "classes": sorted({(v["clause"], v["site"]) for v in r["violations"]}),
        }
        if idx < 3:
            rec["plan"] = plan
        if r["violations"]:
            rec["plan"] = plan
            rec["violations"] = r["violations"]
            new = {c for c in map(tuple, rec["classes"]) if not match_finding(findings, prop, c[0], c[1])}
            # only the first plan of a violation class is minimised per shard: a change that breaks every plan must not make one
            # worker process re-execute (and re-compile) hundreds of training runs (XLA's CPU compiler segfaulted after that)
            fresh = new - minimised_classes
            minimised_classes |= new
            if fresh and minimise_budget > 0:
                small, n_exec = minimise(mod, plan, fresh, budget_s=minimise_budget, max_exec=int(getattr(mod, "MINIMISE_MAX_EXEC", 300)))
                try:
                    r2 = run_plan(mod, small)
                    rec["min_plan"] = small
                    rec["min_violations"] = r2["violations"]
                    rec["min_digest"] = r2["digest"]
                    rec["min_exec"] = n_exec
                except BaseException:
                    pass
        out.append(rec)
    return out


# --------------------------------------------------------------------------
# the tier runner


def write_replay(prop, seed, plan, violations, digest):
    d = os.path.join(VERIF, "replays", prop)
    os.makedirs(d, exist_ok=True)
    path = os.path.join(d, f"{seed}.json")
    with open(path, "w") as f:
        json.dump({"property": prop, "plan": plan, "violations": violations, "digest": digest}, f, indent=1, default=_canon)
    return path


def replay_file(prop, path, quiet=False):
    """Execute the plan in a replay file in this process. Returns result json."""
    setup_env()
    mod = get_check(prop)
    with open(path) as f:
        doc = json.load(f)
    if "plans" in doc:  # aggregated (cross-run) violation: re-execute every contributing plan, re-aggregate
        recs = []
        h = hashlib.sha256()
        for pl in doc["plans"]:
            rr = run_plan(mod, pl)
            h.update(rr["digest"].encode())
            recs.append({"index": pl.get("_index"), "seed": pl.get("_seed"), "extra": rr["extra"], "faults": rr["faults"], "probes": rr["probes"], "classes": []})
        viol = [dict(v) for v in mod.finalize(recs)]
        r = {"digest": h.hexdigest(), "violations": viol}
        if not quiet:
            for v in viol:
                print(f"  {v['clause']} site={v['site']}: {v['detail']}")
        return r, doc
    r = run_plan(mod, doc["plan"])
    if not quiet:
        print(f"replay digest={r['digest']} recorded={doc.get('digest')}")
        for v in r["violations"]:
            print(f"  {v['clause']} site={v['site']}: {v['detail']}")
    return r, doc


def confirm_in_fresh_process(prop, path):
    """Replay in a fresh interpreter; returns (classes, digest) or None."""
    env = dict(os.environ)
    env["PYTHONHASHSEED"] = "0"
    cp = subprocess.run(
        [PY, "-m", "rlsim.cli", prop, "--replay", path, "--json"],
        cwd=VERIF, env=env, capture_output=True, text=True, timeout=900,
    )
    for line in cp.stdout.splitlines():
        if line.startswith("REPLAY-JSON "):
            d = json.loads(line[len("REPLAY-JSON "):])
            return {tuple(c) for c in d["classes"]}, d["digest"]
    sys.stderr.write(cp.stdout[-2000:] + cp.stderr[-2000:])
    return None


def run_tier(prop, tier, verif_seed, workers, runs=None, budget_s=None):
    setup_env()
    from concurrent.futures import ProcessPoolExecutor
    import multiprocessing as mp

    t0 = time.time()
    mod = get_check(prop)
    cfg = dict(mod.TIERS[tier])
    if runs is not None:
        cfg["runs"] = runs
    n = cfg["runs"]
    workers = max(1, min(workers, n))
    deadline = (t0 + budget_s) if budget_s else None
    # Plans are dealt to chunks by index (never by completion order); every chunk runs in a FRESH worker process
    # (max_tasks_per_child=1): JAX's compilation caches grow with every new closure, a long-lived worker would
    # eventually be OOM-killed in the thorough tiers.
    chunk = int(getattr(mod, "CHUNK", 400))
    # contiguous blocks: plan kinds that recur with a period stay spread out. A check may declare that its plans from a
    # certain index on are heavy (complete training runs appended to a tier of cheap plans): those get their own, smaller chunks.
    hf = getattr(mod, "HEAVY_FROM", {}).get(tier)
    ranges = [(0, n, chunk)]
    if hf is not None and 0 < hf < n:
        ranges = [(0, hf, chunk), (hf, n, int(getattr(mod, "HEAVY_CHUNK", 24)))]
    shards = []
    for lo, hi, ch in ranges:
        m = hi - lo
        nc = max(workers if lo == 0 else 1, -(-m // ch))
        per = -(-m // nc)
        shards += [list(range(lo + c * per, min(hi, lo + (c + 1) * per))) for c in range(nc)]
    shards = [sh for sh in shards if sh]
    min_budget = cfg.get("minimise_s", 60)
    args = [(prop, verif_seed, tier, sh, deadline, min_budget) for sh in shards]
    results = []
    harness_errors = []
    ctx = mp.get_context("spawn")
    if workers == 1 and len(shards) == 1:
        results = shard_worker(args[0])
    else:
        with ProcessPoolExecutor(max_workers=workers, mp_context=ctx, max_tasks_per_child=1) as ex:
            futs = [ex.submit(shard_worker, a) for a in args]
            for f in futs:
                try:
                    results.extend(f.result(timeout=cfg.get("timeout_s", 7200)))
                except BaseException as e:
                    harness_errors.append(f"worker died: {e!r}")
    results.sort(key=lambda r: r["index"])
    for r in results:
        if "error" in r:
            harness_errors.append(f"plan index={r['index']} seed={r['seed']}: {r['error']}")

    findings = load_findings()
    known_hit = {}
    new_classes = {}
    for r in results:
        for c in r.get("classes", []):
            c = tuple(c)
            f = match_finding(findings, prop, c[0], c[1])
            if f:
                known_hit.setdefault(c, [f, 0])[1] += 1
            else:
                new_classes.setdefault(c, r)

    ok = [r for r in results if "error" not in r]
    agg_violations = []
    if hasattr(mod, "finalize"):
        for v in mod.finalize(ok):
            c = (v["clause"], v["site"])
            f = match_finding(findings, prop, c[0], c[1])
            if f:
                known_hit.setdefault(c, [f, 0])[1] += 1
                continue
            plans = []
            for idx in v.get("indices", [r["index"] for r in ok]):
                sd = derive_seed(prop, verif_seed, tier, idx)
                pl = mod.make_plan(random.Random(sd), tier, idx)
                pl["_seed"], pl["_index"] = sd, idx
                plans.append(pl)
            agg_violations.append((c, v, plans))
    # evidence ---------------------------------------------------------
    faults, probes, sim = {}, {}, {}
    for r in ok:
        for k, v in r["faults"].items():
            faults[k] = faults.get(k, 0) + v
        for k, v in r["probes"].items():
            probes[k] = probes.get(k, 0) + v
        for k, v in r["sim"].items():
            sim[k] = sim.get(k, 0) + v
    sigs = {r["signature"] for r in ok if (r["faults"] or r["probes"])}
    wall = time.time() - t0
    samples = [r["plan"] for r in ok if "plan" in r and not r.get("classes")][:3]
    if not samples:
        samples = [r["plan"] for r in ok if "plan" in r][:3]
    missing = [k for k in getattr(mod, "REQUIRED", []) if not (faults.get(k) or probes.get(k))]
    if tier == "quick":
        missing = [k for k in missing if k in getattr(mod, "REQUIRED_QUICK", [])]
    ev = {
        "property_id": prop,
        "tier": tier,
        "seed": int(verif_seed),
        "level": mod.LEVEL,
        "coverage": {
            "evaluations": len(ok),
            "distinct_nontrivial": len(sigs),
            "rule": mod.RULE,
            "samples": samples,
            "faults_fired": dict(sorted(faults.items())),
            "reach_probes": dict(sorted(probes.items())),
            "simulated": dict(sorted(sim.items())),
            "runs_per_hour": round(len(ok) / max(wall, 1e-9) * 3600),
            "seeds_per_hour": round(len(ok) / max(wall, 1e-9) * 3600),
            "unchecked_steps": sum(r["unchecked"] for r in ok),
            "real_components": mod.REAL,
            "stub_components": mod.STUB,
            "engine": mod.ENGINE,
            "workers": workers,
            "known_findings_matched": [
                {"clause": c[0], "site": c[1], "runs": v[1]} for c, v in sorted(known_hit.items())
            ],
            "harness_errors": len(harness_errors),
            "missing_required_probes": missing,
            "digest_of_digests": hashlib.sha256("".join(r["digest"] for r in ok).encode()).hexdigest(),
        },
        "assumptions": mod.ASSUMPTIONS,
        "wall_s": round(wall, 2),
        "violations": len(new_classes) + len(agg_violations),
    }
    os.makedirs(os.path.join(VERIF, "evidence"), exist_ok=True)

    def write_ev():
        if os.environ.get("RLSIM_NO_EVIDENCE"):
            return  # development runs against scratch worktrees (seeded changes) must not rewrite the evidence of /repo
        with open(os.path.join(VERIF, "evidence", f"{prop}.json"), "w") as f:
            json.dump(ev, f, indent=1, default=_canon)

    # report -----------------------------------------------------------
    print(f"[{prop}] tier={tier} VERIF_SEED={verif_seed} runs={len(ok)}/{n} workers={workers} wall={wall:.1f}s "
          f"distinct={len(sigs)} faults={sum(faults.values())} probes={sum(probes.values())}")
    for c, (f, cnt) in sorted(known_hit.items()):
        print(f"KNOWN-FINDING: property={prop} clause={c[0]} site={c[1]} runs={cnt} {f.get('what', '')}")
    code = 0
    if new_classes:
        confirmed = 0
        for c, r in sorted(new_classes.items()):
            plan = r.get("min_plan") or r["plan"]
            viol = r.get("min_violations") or r["violations"]
            digest = r.get("min_digest") or r["digest"]
            if r.get("min_plan") is not None and c not in {(v["clause"], v["site"]) for v in viol}:
                plan, viol, digest = r["plan"], r["violations"], r["digest"]
            path = write_replay(prop, f"{r['seed']}_{c[0]}_{c[1]}".replace("/", "_"), plan, viol, digest)
            conf = confirm_in_fresh_process(prop, path)
            # The violation CLASS must reproduce in a fresh interpreter. The digest normally reproduces too; it cannot when the
            # violating behaviour is itself nondeterministic (C09 by definition; reads of never-written np.empty memory),
            # which is then stated next to the VIOLATION line. Harness determinism is established separately (selftest).
            if conf is None or c not in conf[0]:
                harness_errors.append(f"violation {c} seed={r['seed']} did not reproduce in a fresh process (nondeterminism): {conf}")
                continue
            if conf[1] != digest:
                print(f"  NOTE {c[0]} site={c[1]}: class reproduced in a fresh process, event-log digest differs (the violating behaviour is nondeterministic, e.g. uninitialised memory)")
            confirmed += 1
            first = [v for v in viol if (v["clause"], v["site"]) == c][0]
            print(f"  {c[0]} site={c[1]}: {first['detail']}")
            print(f"VIOLATION property={prop} replay={path}")
        if confirmed:
            code = 1
    for c, v, plans in agg_violations:
        d = os.path.join(VERIF, "replays", prop)
        os.makedirs(d, exist_ok=True)
        path = os.path.join(d, f"aggregate_{verif_seed}_{tier}_{c[0]}_{c[1]}.json".replace("/", "_"))
        h = hashlib.sha256()
        byidx = {r["index"]: r for r in ok}
        for pl in plans:
            h.update(byidx[pl["_index"]]["digest"].encode())
        with open(path, "w") as f:
            json.dump({"property": prop, "plans": plans, "violations": [{k: v[k] for k in ("clause", "site", "detail")}], "digest": h.hexdigest()}, f, default=_canon)
        conf = confirm_in_fresh_process(prop, path)
        if conf is None or c not in conf[0] or conf[1] != h.hexdigest():
            harness_errors.append(f"aggregated violation {c} did not reproduce in a fresh process: {conf}")
            continue
        print(f"  {c[0]} site={c[1]}: {v['detail']}")
        print(f"VIOLATION property={prop} replay={path}")
        code = 1
    ev["coverage"]["harness_errors"] = len(harness_errors)
    write_ev()
    if harness_errors:
        for h in harness_errors[:5]:
            print("HARNESS-ERROR " + h[-1500:], file=sys.stderr)
        if code == 0:
            code = 2
    if code == 0 and missing:
        print(f"HARNESS-ERROR vacuous run: required probes at zero: {missing}", file=sys.stderr)
        code = 2
    if code == 0 and len(ok) < n and not budget_s:
        print("HARNESS-ERROR not all plans were executed", file=sys.stderr)
        code = 2
    return code
