"""Generator seam: a scheduler-controlled stand-in for numpy.random.Generator.

The buffers only ever call integers / uniform / choice on the `rng` they are
handed.  StubGenerator answers those calls from variates chosen by the plan
(or by the harness for exhaustive enumeration) and records what was asked.
"""
import numpy as np


class StubGenerator:
    def __init__(self):
        self.calls = []  # (method, info)
        self.unit = None  # iterable of unit variates in (0,1) for the next calls
        self.mode = "unit"  # "unit" | "offset" | "grid"
        self.offset = 0
        self.grid = None  # (call_index, n_calls)
        self.choice_pick = 0
        self.last_high = None
        self.last_size = None
        self.last_choice = None

    # ---- helpers
    def _units(self, n):
        if self.unit is None:
            return np.full(n, 0.5)
        u = np.asarray([self.unit[i % len(self.unit)] for i in range(n)], dtype=float)
        return u

    def integers(self, low, high=None, size=None, dtype=np.int64, endpoint=False):
        if high is None:
            low, high = 0, low
        low = int(low)
        high = int(high) + (1 if endpoint else 0)
        if high <= low:
            raise ValueError("low >= high (empty range)")
        n = 1 if size is None else int(np.prod(size))
        self.last_high = high - low
        self.last_size = n
        self.calls.append(("integers", low, high, n))
        if self.mode == "offset":
            out = low + (self.offset + np.arange(n)) % (high - low)
        else:
            out = low + np.minimum(np.floor(self._units(n) * (high - low)).astype(np.int64), high - low - 1)
        out = out.astype(dtype)
        if size is None:
            return out[0]
        return out.reshape(size)

    def uniform(self, low=0.0, high=1.0, size=None):
        n = 1 if size is None else int(np.prod(size))
        self.last_size = n
        arr = np.ndim(low) > 0 or np.ndim(high) > 0
        self.calls.append(("uniform", "array" if arr else "scalar", n))
        if self.mode == "grid":
            c, ncalls = self.grid
            if arr:
                v = np.full(n, (c + 0.5) / ncalls)
            else:
                v = (c * n + np.arange(n) + 0.5) / (ncalls * n)
        else:
            v = self._units(n)
        out = np.asarray(low, dtype=float) + v * (np.asarray(high, dtype=float) - np.asarray(low, dtype=float))
        if size is None:
            return float(out.reshape(-1)[0])
        return out.reshape(size)

    def choice(self, a, size=None, replace=True, p=None):
        a = list(a) if not isinstance(a, int) else list(range(a))
        self.calls.append(("choice", len(a)))
        pick = a[self.choice_pick % len(a)]
        self.last_choice = pick
        if size is None:
            return pick
        return np.asarray([pick] * int(np.prod(size))).reshape(size)

    def random(self, size=None):
        return self.uniform(0.0, 1.0, size)
