"""ModuleSim (C19, function approximators): save / reload at crash points.

A plan builds one of the repository's module types, then runs a history of
  update      one real optimiser step on plan-chosen data (changes every leaf)
  save_pickle rl_blox.util.serialize.save_pickle (with / without move_to_device="cpu")
  record      record_epoch through LoggerList([OrbaxCheckpointer, StandardLogger]) (real Orbax)
and finally reloads EVERY file: load_pickle with the graphdef, StandardCheckpointer.restore,
probabilistic_ensemble.restore_checkpoint.  Oracle: reloaded leaves bit-identical to the
hash taken at the save event, outputs on probe inputs bit-identical to outputs recorded
then, and the live module unaffected by having been saved.
"""
from __future__ import annotations

import os
import shutil
import tempfile

import numpy as np

from .core import Result, raised_by_code_under_test
from .probes import state_hash
from .simenv import SimEnv

KINDS = ["mlp", "layernorm_mlp", "gaussian_mlp", "tanh_policy", "double_q", "sale", "mrq_policy", "ensemble", "softmax_policy", "gaussian_policy"]


def build(kind, seed, h):
    import jax.numpy as jnp
    from flax import nnx
    from rl_blox.blox.function_approximator.mlp import MLP

    rngs = nnx.Rngs(seed)
    env = SimEnv([], obs_dim=3, act_dim=2, low=-1.0, high=2.0)
    x3 = jnp.asarray(np.linspace(-1, 1, 6, dtype=np.float32).reshape(2, 3))
    if kind == "mlp":
        m = MLP(3, 2, [h, h], "relu", rngs)
        return m, lambda mod: mod(x3)
    if kind == "layernorm_mlp":
        from rl_blox.blox.function_approximator.layer_norm_mlp import LayerNormMLP

        m = LayerNormMLP(3, 2, [h], "elu", rngs)
        return m, lambda mod: mod(x3)
    if kind == "gaussian_mlp":
        from rl_blox.blox.function_approximator.gaussian_mlp import GaussianMLP

        m = GaussianMLP(True, 3, 2, [h], "swish", rngs)
        return m, lambda mod: jnp.concatenate([jnp.ravel(o) for o in mod(x3)])
    if kind == "tanh_policy":
        from rl_blox.blox.function_approximator.policy_head import DeterministicTanhPolicy

        m = DeterministicTanhPolicy(MLP(3, 2, [h], "relu", rngs), env.action_space)
        return m, lambda mod: mod(x3)
    if kind == "softmax_policy":
        from rl_blox.blox.function_approximator.policy_head import SoftmaxPolicy

        m = SoftmaxPolicy(MLP(3, 3, [h], "relu", rngs))
        return m, lambda mod: mod(x3)
    if kind == "gaussian_policy":
        from rl_blox.blox.function_approximator.gaussian_mlp import GaussianMLP
        from rl_blox.blox.function_approximator.policy_head import GaussianPolicy

        m = GaussianPolicy(GaussianMLP(True, 3, 2, [h], "swish", rngs))
        return m, lambda mod: jnp.concatenate([jnp.ravel(o) for o in mod(x3)])
    if kind == "double_q":
        from rl_blox.blox.double_qnet import ContinuousClippedDoubleQNet

        m = ContinuousClippedDoubleQNet(MLP(5, 1, [h], "relu", rngs), MLP(5, 1, [h], "relu", rngs))
        x5 = jnp.concatenate([x3, x3[:, :2]], axis=-1)
        return m, lambda mod: mod(x5)
    if kind == "sale":
        from rl_blox.algorithm.td7 import create_td7_state

        st = create_td7_state(env, n_embedding_dimensions=h, state_embedding_hidden_nodes=[h], state_action_embedding_hidden_nodes=[h],
                              policy_sa_encoding_nodes=h, policy_hidden_nodes=[h], q_sa_encoding_nodes=h, q_hidden_nodes=[h], seed=seed)
        m = st.embedding
        return m, lambda mod: jnp.concatenate([jnp.ravel(o) for o in mod(x3, x3[:, :2])])
    if kind == "mrq_policy":
        from rl_blox.algorithm.mrq import create_mrq_state

        st = create_mrq_state(env, policy_hidden_nodes=[h], q_hidden_nodes=[h], encoder_n_bins=5, encoder_zs_dim=h, encoder_za_dim=h,
                              encoder_zsa_dim=h, encoder_hidden_nodes=[h], seed=seed)
        m = st.policy_with_encoder
        return m, lambda mod: mod(x3)
    if kind == "ensemble":
        from rl_blox.algorithm.pets import create_pets_state

        st = create_pets_state(env, seed=seed, n_ensemble=2, hidden_nodes=(h,))
        m = st.model
        x5 = jnp.concatenate([x3, x3[:, :2]], axis=-1)
        return m, lambda mod: jnp.concatenate([jnp.ravel(o) for o in mod(x5)])
    raise ValueError(kind)


def sgd_step(module, scale):
    """A real optimiser step on a synthetic objective: every parameter leaf changes."""
    import jax
    import optax
    from flax import nnx

    opt = nnx.Optimizer(module, optax.sgd(scale), wrt=nnx.Param)

    def loss(m):
        leaves = jax.tree_util.tree_leaves(nnx.state(m, nnx.Param))
        return sum(((l - 0.123) ** 2).sum() for l in leaves)

    grads = nnx.grad(loss)(module)
    opt.update(module, grads)


def execute(plan):
    import jax
    import rl_blox.logging.checkpointer as ckmod
    import rl_blox.logging.logger as lgmod
    from flax import nnx
    from rl_blox.util.serialize import load_pickle, save_pickle

    res = Result()
    kind = plan["module"]
    site = kind
    scratch = tempfile.mkdtemp(prefix="rlsim_mod_", dir=os.environ.get("VERIF_SCRATCH"))
    try:
        module, fwd = build(kind, plan["seed"], plan["hidden"])
        orb = ckmod.OrbaxCheckpointer(checkpoint_dir=os.path.join(scratch, "orb"))
        std = lgmod.StandardLogger(checkpoint_dir=os.path.join(scratch, "std"))
        logger = lgmod.LoggerList([orb, std])
        logger.define_experiment("SimEnv", "modsim")
        logger.define_checkpoint_frequency("m", plan["freq"])
        saves = []  # (kind, path, hash, outputs)
        step = 0
        n_std = n_orb = 0
        for i, op in enumerate(plan["ops"]):
            try:
                if op[0] == "update":
                    sgd_step(module, op[1])
                    res.simt("updates")
                elif op[0] == "save_pickle":
                    h0 = state_hash(module)
                    out0 = np.asarray(fwd(module))
                    same = len(op) > 2 and op[2]
                    path = os.path.join(scratch, "latest.pkl" if same else f"m{i}.pkl")
                    save_pickle(path, module, move_to_device="cpu" if op[1] else None)
                    if same:  # a periodically overwritten file: only the newest snapshot must be read back
                        saves = [x for x in saves if x[1] != path]
                        res.fault("save_pickle_same_path")
                    saves.append(("pickle", path, h0, out0, bool(op[1])))
                    if state_hash(module) != h0:
                        res.violate("C19.c", site, f"op {i}: save_pickle changed the live module")
                        return res
                    res.fault("save_pickle_cpu" if op[1] else "save_pickle")
                elif op[0] == "record":
                    step += op[1]
                    h0 = state_hash(module)
                    out0 = np.asarray(fwd(module))
                    b_orb, b_std = len(orb.checkpoint_path["m"]), len(std.checkpoint_path["m"])
                    logger.record_epoch("m", module, step=step)
                    if len(orb.checkpoint_path["m"]) > b_orb:
                        saves.append(("orbax", orb.checkpoint_path["m"][-1], h0, out0, None))
                        res.fault("orbax_checkpoint")
                    if len(std.checkpoint_path["m"]) > b_std:
                        saves.append(("standard", std.checkpoint_path["m"][-1], h0, out0, None))
                        res.fault("standard_logger_checkpoint")
                    if state_hash(module) != h0:
                        res.violate("C19.c", site, f"op {i}: checkpointing changed the live module")
                        return res
            except Exception as e:
                if not raised_by_code_under_test(e):
                    raise
                res.violate("C19.raise", site, f"op {i} {op}: {type(e).__name__}: {str(e)[:300]}")
                return res
        final_hash = state_hash(module)
        if len({s[2] for s in saves}) > 1:
            res.probe("saves_of_different_states")
        # reload everything ("restart": only what is on disk survives)
        graphdef = nnx.graphdef(module)
        import orbax.checkpoint as ocp

        for kind_s, path, h0, out0, cpu in saves:
            try:
                if kind_s == "pickle":
                    m2 = load_pickle(path, graphdef, "cpu" if cpu else None)
                elif kind_s == "orbax" and kind == "ensemble" and plan.get("use_restore_checkpoint", True):
                    from rl_blox.blox.probabilistic_ensemble import restore_checkpoint

                    m2 = restore_checkpoint(path, build(kind, plan["seed"] + 1, plan["hidden"])[0])
                else:
                    target = build(kind, plan["seed"] + 1, plan["hidden"])[0]
                    st = ocp.StandardCheckpointer().restore(path, nnx.state(target) if kind_s == "orbax" else nnx.split(target)[1])
                    nnx.update(target, st)
                    m2 = target
            except Exception as e:
                res.violate("C19.b", site, f"{kind_s} file written at a save event cannot be reloaded: {type(e).__name__}: {str(e)[:300]}")
                return res
            h2 = state_hash(m2)
            if h2 != h0:
                res.violate("C19.b", site, f"{kind_s}: reloaded parameters differ from the module state at the save event")
                return res
            out2 = np.asarray(fwd(m2))
            if out2.tobytes() != out0.tobytes():
                res.violate("C19.b", site, f"{kind_s}: reloaded module gives different outputs on the probe inputs (max |diff| {np.abs(out2 - out0).max()})")
                return res
            res.probe("reloads_checked")
            res.probe("reload_" + kind_s)
        if state_hash(module) != final_hash:
            res.violate("C19.c", site, "reloading changed the live module")
        res.log.add("saves", [(s[0], s[2]) for s in saves], final_hash)
    finally:
        shutil.rmtree(scratch, ignore_errors=True)
    res.signature = f"{kind}|{plan['hidden']}|{plan['freq']}|{len(plan['ops'])}|{','.join(sorted(res.faults))}"
    return res


def make_plan(rng):
    ops = []
    for _ in range(rng.choice([3, 6, 10, 16])):
        r = rng.random()
        if r < 0.4:
            ops.append(["update", rng.choice([1e-3, 1e-2, 0.1])])
        elif r < 0.65:
            ops.append(["save_pickle", rng.random() < 0.5, rng.random() < 0.4])
        else:
            ops.append(["record", rng.choice([0, 1, 1, 2, 5])])
    ops.append(["save_pickle", rng.random() < 0.5])
    return {"kind": "module", "module": rng.choice(KINDS), "seed": rng.randrange(1000), "hidden": rng.choice([2, 3]), "freq": rng.choice([1, 2, 3]), "ops": ops}
