"""Refinement oracle for value-learning updates inside simulated training (C03 value clauses).

Every `sample_batch` the training routine performs on the buffer it was handed is an operation of
the recorded history.  At that instant the monitor copies the returned batch and clones every
network the routine is about to use (online critic, target critic, target policy ...).  The
statistics the routine then reports for that update ("q loss", "q mean", |TD| errors handed to the
priority function, tracked value ranges) are compared with a small float64 reference model of the
documented regression

        y_i = r_i + (1 - terminated_i) * gamma * bootstrap_i ,     loss = mean_i  l(Q(o_i, a_i) - y_i)

whose only inputs are the copied batch and forward passes through the cloned (real) networks.  The
reference never looks at how the loss under test is written: it depends on the history alone
(which rows the seeded sampler returned, what the networks were after all earlier updates and
target synchronisations, which value range had been tracked so far).
"""
from __future__ import annotations

import numpy as np

EPS32 = 1.2e-7


def _f64(x):
    return np.asarray(x, dtype=np.float64)


_DT = [np.float32]  # precision of the reference's forward passes (float64 under jax.experimental.enable_x64, float32 to gauge rounding)


def _fwd(mod, x, **kw):
    import jax.numpy as jnp

    return _f64(mod(jnp.asarray(np.asarray(x, dtype=_DT[0])), **kw))


def _col(x):
    x = _f64(x)
    assert x.ndim == 2 and x.shape[1] == 1, x.shape
    return x[:, 0]


def huber(e, d):
    a = np.abs(e)
    return np.where(a <= d, 0.5 * e * e, 0.5 * d * d + d * (a - d))


class Ref:
    """Expected statistics of one update + the magnitudes that bound float32 rounding."""

    def __init__(self):
        self.stats = {}  # key -> (value, tolerance)
        self.td = None  # per-sample |TD| (max over critics) or None
        self.y = None
        self.partial = False
        self.clip_active = False

    def put(self, key, value, scale, slope=1.0):
        # |d loss| <= slope * delta with delta the float32 uncertainty of a forward pass of magnitude `scale`
        delta = 64 * EPS32 * (1.0 + scale)
        self.stats[key] = (float(value), 2e-5 * (1.0 + abs(float(value))) + slope * delta)


def _batch(b):
    d = {k: np.array(np.asarray(getattr(b, k)), copy=True) for k in b._fields}
    t = d["terminated"] if "terminated" in d else d["termination"]
    d["_t"] = _f64(t).reshape(-1)
    d["_r"] = _f64(d["reward"]).reshape(-1)
    return d


# ---- reference models -------------------------------------------------------------------------

def ref_dqn_family(name, B, nets, cfg, extra):
    g = cfg["gamma"]
    q = nets["q"]
    qt = nets.get("q_target")
    o, o2 = B["observation"], B["next_observation"]
    a = np.asarray(B["action"]).astype(int).reshape(-1)
    n = len(a)
    q_o = _fwd(q, o)
    if name == "dqn":
        boot = _fwd(q, o2).max(axis=1)
    elif name == "nature_dqn":
        boot = _fwd(qt, o2).max(axis=1)
    else:  # double-Q selection: argmax of the ONLINE network, value of the TARGET network
        sel = _fwd(q, o2)
        tgt = _fwd(qt, o2)
        srt = np.sort(sel, axis=1)
        if np.any(srt[:, -1] - srt[:, -2] <= 64 * EPS32 * (1 + np.abs(srt[:, -1]))):
            return None  # numerically tied maximiser: the selection is not determined at float32 precision
        boot = tgt[np.arange(n), sel.argmax(axis=1)]
        extra["selection_differs"] = bool(np.any((sel.argmax(axis=1) != tgt.argmax(axis=1)) & (B["_t"] == 0)))
    y = B["_r"] + (1.0 - B["_t"]) * g * boot
    pred = q_o[np.arange(n), a]
    e = pred - y
    scale = max(np.abs(pred).max(), np.abs(y).max())
    r = Ref()
    r.y = y
    slope = 2 * (np.abs(e).max() + 1.0)
    if name == "ddqn_per":
        w = _f64(extra["is_ratio"]).reshape(-1)
        r.put("weighted loss", np.mean(w * e * e), scale, slope * max(1.0, np.abs(w).max()))
        r.put("abs td error", np.mean(np.abs(e)), scale)
    else:
        r.put("q loss", np.mean(e * e), scale, slope)
    r.put("q mean", np.mean(pred), scale)
    r.td = np.abs(e)
    return r


def _next_action(name, B, nets, cfg, run, extra):
    """Target action a' for the bootstrap: the target policy's own output; with target smoothing the value the routine
    actually fed to the target critic (read from the probe on the target critic) is used instead."""
    o2 = B["next_observation"]
    if name == "ddpg" or cfg.get("noise_clip", 0.0) == 0.0:
        a2 = _fwd(nets["policy_target"], o2)
        if name != "ddpg":
            lo, hi = _f64(run.env.action_space.low), _f64(run.env.action_space.high)
            a2 = np.clip(a2, lo, hi)
        return a2
    x = extra.get("qt_input")
    if x is None:
        return None
    od = o2.shape[1]
    if x.shape[0] != o2.shape[0] or not np.array_equal(x[:, :od].astype(np.float32), o2.astype(np.float32)):
        return None
    return _f64(x[:, od:])


def ref_continuous(name, B, nets, cfg, run, extra):
    g = cfg["gamma"]
    o, o2, a = B["observation"], B["next_observation"], B["action"]
    a2 = _next_action(name, B, nets, cfg, run, extra)
    if a2 is None:
        return None
    x2 = np.concatenate([_f64(o2), a2], axis=1)
    x = np.concatenate([_f64(o), _f64(a)], axis=1)
    r = Ref()
    if name == "ddpg":
        boot = _col(_fwd(nets["q_target"], x2))
        y = B["_r"] + (1.0 - B["_t"]) * g * boot
        pred = _col(_fwd(nets["q"], x))
        e = pred - y
        scale = max(np.abs(pred).max(), np.abs(y).max())
        r.put("q loss", np.mean(e * e), scale, 2 * (np.abs(e).max() + 1.0))
        r.put("q mean", np.mean(pred), scale)
        r.y = y
        return r
    qt, q = nets["q_target"], nets["q"]
    boot = np.minimum(_col(_fwd(qt.q1, x2)), _col(_fwd(qt.q2, x2)))  # clipped double-Q minimum
    y = B["_r"] + (1.0 - B["_t"]) * g * boot
    p1, p2 = _col(_fwd(q.q1, x)), _col(_fwd(q.q2, x))
    e1, e2 = p1 - y, p2 - y
    scale = max(np.abs(p1).max(), np.abs(p2).max(), np.abs(y).max())
    emax = max(np.abs(e1).max(), np.abs(e2).max())
    if name == "td3":
        r.put("q loss", np.mean(e1 * e1) + np.mean(e2 * e2), scale, 4 * (emax + 1.0))
    else:
        d = cfg.get("lap_min_priority", 1.0)
        r.put("q loss", np.mean(huber(e1, d)) + np.mean(huber(e2, d)), scale, 2 * d + 2 * min(emax, d) + 1.0)
        r.td = np.maximum(np.abs(e1), np.abs(e2))
    r.put("q mean", np.mean(np.minimum(p1, p2)), scale)
    r.y = y
    return r


def _J(x):
    import jax.numpy as jnp

    return jnp.asarray(np.asarray(x, dtype=_DT[0]))


def ref_td7(name, B, nets, cfg, run, extra):
    """TD7: y = r + (1 - t) * gamma * clip(min(Q1', Q2')(o', a', zsa', zs'), q_min, q_max) with the value range the routine reports
    for this update; LAP Huber loss summed over both critics; SALE loss mse(zsa(o, a), zs(o'))."""
    g = cfg["gamma"]
    o, o2, a = B["observation"], B["next_observation"], B["action"]
    r = Ref()
    emb = nets["embedding"]
    zsa_e, _ = emb(_J(o), _J(a))
    zsp = emb.state_embedding(_J(o2))
    d = _f64(zsa_e) - _f64(zsp)
    r.put("embedding loss", np.mean(d * d), max(np.abs(_f64(zsa_e)).max(), np.abs(_f64(zsp)).max()), 2 * (np.abs(d).max() + 1.0))
    lg = extra.get("logged", {})
    if any(nets.get(k) is None for k in ("fixed_embedding", "fixed_embedding_target", "critic", "critic_target", "actor_target")) \
            or "min_target_value" not in lg or "max_target_value" not in lg:
        r.partial = True
        return r
    fe, fet, q, qt, pt = (nets[k] for k in ("fixed_embedding", "fixed_embedding_target", "critic", "critic_target", "actor_target"))
    lo, hi = _f64(run.env.action_space.low), _f64(run.env.action_space.high)
    if cfg.get("noise_clip", 0.0) == 0.0 or cfg.get("target_policy_noise", 0.0) == 0.0:
        a2 = np.clip(_f64(pt(_J(o2), fet.state_embedding(_J(o2)))), lo, hi)
    else:
        x = extra.get("qt_input")
        od = o2.shape[1]
        if x is None or x.shape[0] != o2.shape[0] or not np.array_equal(x[:, :od].astype(np.float32), o2.astype(np.float32)):
            r.partial = True
            return r
        a2 = _f64(x[:, od:])
    zsa, zs = fe(_J(o), _J(a))
    nzsa, nzs = fet(_J(o2), _J(a2))
    x2 = _J(np.concatenate([_f64(o2), a2], axis=1))
    x = _J(np.concatenate([_f64(o), _f64(a)], axis=1))
    boot = np.minimum(_col(qt.q1(x2, zsa=nzsa, zs=nzs)), _col(qt.q2(x2, zsa=nzsa, zs=nzs)))
    qmin, qmax = lg["min_target_value"], lg["max_target_value"]
    clipped = np.clip(boot, qmin, qmax)
    y = B["_r"] + (1.0 - B["_t"]) * g * clipped
    p1, p2 = _col(q.q1(x, zsa=zsa, zs=zs)), _col(q.q2(x, zsa=zsa, zs=zs))
    e1, e2 = p1 - y, p2 - y
    dl = cfg.get("lap_min_priority", 1.0)
    scale = max(np.abs(p1).max(), np.abs(p2).max(), np.abs(y).max(), np.abs(boot).max())
    r.put("q loss", np.mean(huber(e1, dl)) + np.mean(huber(e2, dl)), scale, 4 * dl + 1.0)
    r.td = np.maximum(np.abs(e1), np.abs(e2))
    r.y = y
    r.clip_active = bool(np.any((boot < qmin) | (boot > qmax)) and np.any(B["_t"] == 0))
    return r


def ref_mrq(name, B, nets, cfg, run, extra):
    """MR.Q: y = (R_n + discount_n * min(Q1', Q2')(zsa') * target_reward_scale) / reward_scale with the n-step return cut at
    the first terminated step; Huber(1) loss summed over both critics."""
    g = cfg["gamma"]
    rs, trs = extra.get("reward_scale"), extra.get("target_reward_scale")
    if rs is None or trs is None or not rs > 0:
        return None
    o, o2, a = B["observation"], B["next_observation"], B["action"]
    rew, term = _f64(B["reward"]), _f64(B["terminated"])
    if rew.ndim != 2 or o.ndim != 2:
        return None
    R = np.zeros(rew.shape[0])
    disc = np.ones(rew.shape[0])
    for t in range(rew.shape[1]):
        R += disc * rew[:, t]
        disc *= g * (1.0 - term[:, t])
    pwe, pwet, q, qt = nets["pwe"], nets["pwe_target"], nets["q"], nets["q_target"]
    lo, hi = _f64(run.env.action_space.low), _f64(run.env.action_space.high)
    if cfg.get("noise_clip", 0.0) == 0.0 or cfg.get("target_policy_noise", 0.0) == 0.0:
        a2 = np.clip(_f64(pwet(_J(o2))), lo, hi)
    else:
        return None
    nzs = pwet.encoder.encode_zs(_J(o2))
    nzsa = pwet.encoder.encode_zsa(nzs, _J(a2))
    boot = np.minimum(_col(qt.q1(nzsa)), _col(qt.q2(nzsa)))
    y = (R + disc * boot * trs) / rs
    zs = pwe.encoder.encode_zs(_J(o))
    zsa = pwe.encoder.encode_zsa(zs, _J(a))
    p1, p2 = _col(q.q1(zsa)), _col(q.q2(zsa))
    e1, e2 = p1 - y, p2 - y
    scale = max(np.abs(p1).max(), np.abs(p2).max(), np.abs(y).max(), np.abs(boot).max() * max(1.0, trs / rs), np.abs(R).max() / rs)
    r = Ref()
    r.put("q loss", np.mean(huber(e1, 1.0)) + np.mean(huber(e2, 1.0)), scale, 5.0)
    r.put("q mean", np.mean(np.minimum(p1, p2)), scale)
    r.td = np.maximum(np.abs(e1), np.abs(e2))
    r.y = y
    return r


def ref_sac(name, B, nets, cfg, run, extra):
    """SAC: y = r + (1 - t) * gamma * (min(Q1', Q2')(o', a') - alpha * log pi(a' | o')), a' = the action the routine drew for the
    bootstrap (read from the probe on the target critic), log pi from the (cloned) policy, alpha as it was at the sample instant."""
    g = cfg["gamma"]
    o, o2, a = B["observation"], B["next_observation"], B["action"]
    x = extra.get("qt_input")
    alpha = extra.get("alpha")
    od = o2.shape[1]
    if x is None or alpha is None or x.shape[0] != o2.shape[0] or not np.array_equal(x[:, :od].astype(np.float32), o2.astype(np.float32)):
        return None
    a2 = _f64(x[:, od:])
    logp = _f64(nets["policy"].log_probability(_J(o2), _J(a2))).reshape(-1)
    x2 = np.concatenate([_f64(o2), a2], axis=1)
    xx = np.concatenate([_f64(o), _f64(a)], axis=1)
    qt, q = nets["q_target"], nets["q"]
    boot = np.minimum(_col(_fwd(qt.q1, x2)), _col(_fwd(qt.q2, x2))) - alpha * logp
    y = B["_r"] + (1.0 - B["_t"]) * g * boot
    p1, p2 = _col(_fwd(q.q1, xx)), _col(_fwd(q.q2, xx))
    e1, e2 = p1 - y, p2 - y
    scale = max(np.abs(p1).max(), np.abs(p2).max(), np.abs(y).max(), np.abs(alpha * logp).max())
    emax = max(np.abs(e1).max(), np.abs(e2).max())
    r = Ref()
    r.put("q loss", np.mean(e1 * e1) + np.mean(e2 * e2), scale, 4 * (emax + 1.0))
    r.put("q mean", np.mean(np.minimum(p1, p2)), scale)
    r.y = y
    return r


def sale_step_mismatch(B, emb, opt, emb_after):
    """One reference optimiser step (clone of the real optimiser state, gradient of the documented SALE loss with a gradient-stopped
    target, float32 like the routine) from the pre-update clone `emb`, compared with the embedding as it was at the next sample.
    Only parameter entries whose reference gradient is well above rounding noise are compared (Adam normalises by |g|)."""
    import jax
    import jax.numpy as jnp
    from flax import nnx

    from .probes import params_only

    o, a, o2 = (jnp.asarray(np.asarray(B[k], dtype=np.float32)) for k in ("observation", "action", "next_observation"))
    before = dict(params_only(emb))

    def loss_fn(m):
        zsa, _ = m(o, a)
        zsp = jax.lax.stop_gradient(m.state_embedding(o2))
        return jnp.mean((zsa - zsp) ** 2)

    grads = nnx.grad(loss_fn)(emb)
    g = {jax.tree_util.keystr(p): np.asarray(l) for p, l in jax.tree_util.tree_flatten_with_path(nnx.state(grads, nnx.Param) if not isinstance(grads, nnx.State) else grads)[0]}
    opt.update(emb, grads)
    ref = dict(params_only(emb))
    act = dict(params_only(emb_after))
    for name in ref:
        if name not in act or name not in before or ref[name].shape != act[name].shape:
            continue
        gk = next((v for k, v in g.items() if k == name or k.replace(".value", "") == name.replace(".value", "")), None)
        step = np.abs(ref[name] - before[name])
        mask = step > 0
        if gk is not None and gk.shape == ref[name].shape:
            mask = mask & (np.abs(gk) > 1e-4)
        else:
            continue
        if not mask.any():
            continue
        tol = 0.03 * np.maximum(step, np.abs(act[name] - before[name])) + 1e-6
        d = np.abs(act[name] - ref[name])
        badm = mask & (d > tol)
        if badm.any():
            i = tuple(int(x) for x in np.argwhere(badm)[0])
            return (f"{name}{list(i)}", float(act[name][i]), float(ref[name][i]), float(before[name][i]))
    return None


REFS = {"dqn": ref_dqn_family, "nature_dqn": ref_dqn_family, "ddqn": ref_dqn_family, "ddqn_per": ref_dqn_family,
        "ddpg": ref_continuous, "td3": ref_continuous, "td3_lap": ref_continuous}
NEEDS = {"dqn": ("q",), "nature_dqn": ("q", "q_target"), "ddqn": ("q", "q_target"), "ddqn_per": ("q", "q_target"),
         "ddpg": ("q", "q_target", "policy_target"), "td3": ("q", "q_target", "policy_target"), "td3_lap": ("q", "q_target", "policy_target"),
         "td7": ("embedding",), "mrq": ("pwe", "pwe_target", "q", "q_target"), "sac": ("q", "q_target", "policy")}
OPTIONAL = {"td7": ("fixed_embedding", "fixed_embedding_target", "critic", "critic_target", "actor_target")}
PRIORITY_MODS = {"td3_lap": "rl_blox.algorithm.td3_lap", "ddqn_per": "rl_blox.algorithm.per", "td7": "rl_blox.algorithm.td7", "mrq": "rl_blox.algorithm.mrq"}
QT_NAME = {"td3": "q_target", "td3_lap": "q_target", "td7": "critic_target", "sac": "q_target"}


class RefinementMonitor:
    """C03.value / C03.aux: logged loss, q mean and the |TD| errors handed on to the priority function, for every update
    of the history, against the float64 reference evaluated on the state the history had reached at that instant."""

    def __init__(self, run):
        import importlib

        from .probes import probe

        self.run = run
        self.name = run.adapter.name
        self.samples = []
        self.flow = []
        buf = run.buffer
        base = type(buf)
        mon = self
        self.empty_at_start = len(buf) == 0

        class Recording(base):
            def sample_batch(self, *a, **k):
                out = base.sample_batch(self, *a, **k)
                mon.on_sample(out, a, k)
                return out

        buf.__class__ = Recording
        self.undo = []
        if self.name in PRIORITY_MODS:
            self.mod = importlib.import_module(PRIORITY_MODS[self.name])
            for fn in ("lap_priority", "per_priority"):
                if hasattr(self.mod, fn):
                    orig = getattr(self.mod, fn)

                    def wrapper(abs_td_error, *a, _orig=orig, **k):
                        mon.flow.append((len(mon.samples) - 1, np.asarray(abs_td_error, dtype=np.float64).reshape(-1)))
                        return _orig(abs_td_error, *a, **k)

                    setattr(self.mod, fn, wrapper)
                    self.undo.append((fn, orig))
        c = run.plan["cfg"]
        smoothing = c.get("noise_clip", 0.0) != 0.0 and (self.name in ("td3",) or c.get("target_policy_noise", 0.2) != 0.0)
        self.use_probe = self.name in QT_NAME and (smoothing or self.name == "sac") and QT_NAME[self.name] in run.comps
        if self.use_probe:
            probe(run.comps[QT_NAME[self.name]], "qt", run.recorder)

    def on_sample(self, out, a, k):
        import jax
        from flax import nnx

        run = self.run
        jax.effects_barrier()
        self.close_probe()
        if self.name == "mrq":
            inter = a[2] if len(a) > 2 else k.get("include_intermediate", False)
            if inter:
                return  # the encoder's batch (full view); the representation loss is not part of this reference
        extra = {}
        if self.name == "sac" and getattr(run, "entropy_control", None) is not None:
            extra["alpha"] = float(np.asarray(run.entropy_control.alpha_, dtype=np.float64).reshape(-1)[0])
        b = out
        if isinstance(out, tuple) and not hasattr(out, "_fields"):
            b, extra["is_ratio"] = out[0], np.array(np.asarray(out[1]), copy=True)
        comps = run.all_comps()
        nets = {}
        for key in NEEDS[self.name]:
            m = comps.get(key)
            if m is None:
                nets = None
                break
            nets[key] = nnx.clone(m)
        if nets is not None:
            for key in OPTIONAL.get(self.name, ()):
                m = comps.get(key)
                nets[key] = nnx.clone(m) if m is not None else None
            if self.name == "td7" and comps.get("embedding_opt") is not None:
                nets["embedding_opt"] = nnx.clone(comps["embedding_opt"])
        self.samples.append({"batch": _batch(b), "nets": nets, "extra": extra, "pos": len(run.log_events), "iter": run.iter_k,
                             "call": len(run.calls)})

    def close_probe(self):
        """Attach the target-critic inputs recorded since the previous sample to that sample."""
        if not self.use_probe:
            return
        recs = self.run.recorder.take()
        if self.samples:
            for tag, args, out in recs:
                if tag == "qt" and args and args[0].ndim == 2:
                    self.samples[-1]["extra"].setdefault("qt_input", np.asarray(args[0]))

    def reference(self, s, cfg):
        """Reference with float64 forward passes; the same reference with float32 forward passes gauges how strongly float32
        rounding inside the (tiny, sometimes ill-conditioned: layer norm over 3 features) networks shows in each statistic."""
        import jax

        _DT[0] = np.float64
        try:
            with jax.experimental.enable_x64():
                r64 = self._reference(s, cfg)
        finally:
            _DT[0] = np.float32
        if r64 is None:
            return None
        r32 = self._reference(s, cfg)
        if r32 is None or set(r32.stats) != set(r64.stats):
            return None
        for k, (v, tol) in r64.stats.items():
            r64.stats[k] = (v, tol + 16 * abs(v - r32.stats[k][0]))
        r64.td_tol = None
        if r64.td is not None and r32.td is not None and r32.td.shape == r64.td.shape:
            r64.td_tol = 16 * np.abs(r64.td - r32.td)
        return r64

    def _reference(self, s, cfg):
        if self.name in ("dqn", "nature_dqn", "ddqn", "ddqn_per"):
            return ref_dqn_family(self.name, s["batch"], s["nets"], cfg, s["extra"])
        if self.name == "td7":
            return ref_td7(self.name, s["batch"], s["nets"], cfg, self.run, s["extra"])
        if self.name == "mrq":
            return ref_mrq(self.name, s["batch"], s["nets"], cfg, self.run, s["extra"])
        if self.name == "sac":
            return ref_sac(self.name, s["batch"], s["nets"], cfg, self.run, s["extra"])
        return ref_continuous(self.name, s["batch"], s["nets"], cfg, self.run, s["extra"])

    def finish(self):
        run = self.run
        for fn, orig in self.undo:
            setattr(self.mod, fn, orig)
        self.close_probe()
        cfg = run.plan["cfg"]
        ev = run.log_events
        n = len(self.samples)
        if run.incomplete_last_iteration and n:
            n -= 1  # the routine left by raising: the last sampled batch may never have been used
        # MR.Q: (reward_scale, target_reward_scale) as reported by the routine: at every target synchronisation the target
        # scale takes the old scale and the scale is re-estimated from the buffer ("reward scale" statistic)
        scale_events = [i for i, (_, e) in enumerate(ev) if e[0] == "stat" and e[1] == "reward scale"]
        prev_range = None
        for j in range(n):
            s = self.samples[j]
            end = self.samples[j + 1]["pos"] if j + 1 < len(self.samples) else len(ev)
            if s["nets"] is None:
                run.res.probe("update_networks_not_yet_observable")
                continue
            window = {}
            for _, e in ev[s["pos"]:end]:
                if e[0] == "stat" and e[1] not in window:
                    try:
                        window[e[1]] = float(np.asarray(e[2], dtype=np.float64).reshape(-1)[0])
                    except Exception:
                        pass
            s["extra"]["logged"] = window
            if self.name == "mrq":
                if s["call"] == 0 and self.empty_at_start:
                    rs, trs = 1.0, 0.0
                    for i in scale_events:
                        if i < s["pos"]:
                            trs, rs = rs, float(np.asarray(ev[i][1][2], dtype=np.float64).reshape(-1)[0])
                    s["extra"]["reward_scale"], s["extra"]["target_reward_scale"] = rs, trs
                    if rs != 1.0:
                        run.res.probe("update_with_reward_scale_not_one")
            ref = self.reference(s, cfg)
            if ref is None or any(not np.isfinite(v[0]) for v in ref.stats.values()):
                run.res.unchecked += 1
                run.res.probe("update_reference_undetermined")
                continue
            if ref.partial:
                run.res.probe("update_reference_partial")
            for key, (want, tol) in ref.stats.items():
                if key not in window:
                    continue
                got = window[key]
                if not abs(got - want) <= tol:
                    cl = "C03.value" if "loss" in key else "C03.aux"
                    t = s["batch"]["_t"]
                    run.V(cl, f"update {j} (iteration {s['iter']}): logged '{key}' = {got!r} but the documented regression onto "
                              f"y = r + (1 - terminated) * gamma * bootstrap gives {want!r} (tolerance {tol:.3g}); batch of {t.size} rows, "
                              f"{int(t.sum())} terminated, gamma {cfg['gamma']}, rewards {np.round(s['batch']['_r'], 3).tolist()[:12]}")
                    return
                run.res.probe("update_matches_reference:" + key.replace(" ", "_"))
            if window:
                t = s["batch"]["_t"]
                if t.sum() == t.size:
                    run.res.probe("update_on_all_terminated_batch")
                elif t.sum() > 0:
                    run.res.probe("update_on_mixed_terminated_batch")
            if ref.clip_active:
                run.res.probe("update_with_active_value_clipping")
            if s["extra"].get("selection_differs"):
                run.res.probe("double_q_selection_differs_from_target_argmax")
            if self.name == "td7" and ref.y is not None and "min_value" in window and "max_value" in window:
                # tracked value range = running min / max of the targets of this call
                if prev_range is not None and prev_range[0] == s["call"]:
                    tol = 2e-5 * (1 + np.abs(ref.y).max()) + 64 * EPS32 * (1 + np.abs(ref.y).max())
                    want_lo, want_hi = min(prev_range[1], ref.y.min()), max(prev_range[2], ref.y.max())
                    if abs(window["min_value"] - want_lo) > tol or abs(window["max_value"] - want_hi) > tol:
                        run.V("C03.aux", f"update {j}: tracked value range [{window['min_value']!r}, {window['max_value']!r}] is not the running range of the targets "
                                         f"[{want_lo!r}, {want_hi!r}]")
                        return
                    run.res.probe("value_range_tracks_targets")
                prev_range = (s["call"], window["min_value"], window["max_value"])
            if self.name == "td7" and j + 1 < len(self.samples) and self.samples[j + 1]["call"] == s["call"] and self.samples[j + 1]["nets"] is not None \
                    and s["nets"].get("embedding_opt") is not None:
                bad = sale_step_mismatch(s["batch"], s["nets"]["embedding"], s["nets"]["embedding_opt"], self.samples[j + 1]["nets"]["embedding"])
                if bad is not None:
                    run.V("C03.grad", f"update {j}: after the SALE update parameter {bad[0]} is {bad[1]!r}, one optimiser step along the gradient of mse(zsa(o, a), stop_gradient(zs(o'))) "
                                      f"gives {bad[2]!r} (before the update {bad[3]!r}): the representation loss is not differentiated against a gradient-stopped target")
                    return
                run.res.probe("sale_update_follows_reference_gradient")
            if ref.td is not None:
                for jj, x in self.flow:
                    if jj == j and x.size == ref.td.size:
                        tol = 2e-5 * (1 + np.abs(ref.td)) + 64 * EPS32 * (1 + np.abs(ref.y)) + (ref.td_tol if ref.td_tol is not None else 0.0)
                        if np.any(np.abs(x - ref.td) > tol):
                            i = int(np.argmax(np.abs(x - ref.td) - tol))
                            run.V("C03.aux", f"update {j}: per-sample |TD| error handed to the priority function is {x[i]!r} for row {i}, reference {ref.td[i]!r}")
                            return
                        run.res.probe("td_errors_match_reference")
                        if np.any(ref.td > cfg.get("lap_min_priority", 1.0)):
                            run.res.probe("td_error_beyond_huber_delta")
