"""Adapters for TD7, MR.Q and PETS."""
from __future__ import annotations

import numpy as np

from .trainsim import Adapter, OffPolicyCont, _common_cfg, _scale_params, register


class TD7(OffPolicyCont):
    name = "td7"
    marker_keys = ("embedding loss",)
    epoch_markers = ("actor_checkpoint",)
    dynamic_markers = True
    epoch_map = {
        "actor_checkpoint": "actor_checkpoint", "fixed_embedding_checkpoint": "fixed_embedding_checkpoint",
        "embedding": "embedding", "fixed_embedding": "fixed_embedding", "q": "critic", "policy": "actor",
        "q_target": "critic_target", "policy_target": "actor_target", "fixed_embedding_target": "fixed_embedding_target",
    }
    may_stay = ("actor_checkpoint", "fixed_embedding_checkpoint")
    # modules train_td7 clones afresh at the start of EVERY call (they are not parameters of the routine)
    internal_comps = ("fixed_embedding", "fixed_embedding_target", "actor_checkpoint", "fixed_embedding_checkpoint")
    target_pairs = (("actor_target", "actor"), ("critic_target", "critic"), ("fixed_embedding", "embedding"),
                    ("fixed_embedding_target", "embedding"), ("fixed_embedding_target", "fixed_embedding"),
                    ("actor_checkpoint", "actor"), ("fixed_embedding_checkpoint", "fixed_embedding"))

    def cfg(self, rng, env_cfg, T=40):
        c = super().cfg(rng, env_cfg, T)
        c.update(
            target_delay=rng.choice([1, 2, 3, 5, 7]), policy_delay=rng.choice([1, 2, 3]),
            use_checkpoints=rng.random() < 0.6, max_episodes_when_checkpointing=rng.choice([1, 2, 3, 5]),
            steps_before_checkpointing=rng.choice([0, 3, 8, 15, 10_000]), reset_weight=rng.choice([0.5, 0.9, 1.0, 1.5]),
            learning_starts=rng.choice([0, 1, 3, 5, 8, T // 3]), buffer_size=rng.choice([8, 16, 64, 1000]),
            target_policy_noise=rng.choice([0.0, 0.2, 2.0]),
        )
        return c

    def build(self, run):
        from flax import nnx
        from rl_blox.algorithm.td7 import create_td7_state

        c = run.plan["cfg"]
        h = c["hidden"]
        st = create_td7_state(run.env, n_embedding_dimensions=h, state_embedding_hidden_nodes=[h],
                              state_action_embedding_hidden_nodes=[h], policy_sa_encoding_nodes=h, policy_hidden_nodes=[h],
                              q_sa_encoding_nodes=h, q_hidden_nodes=[h], embedding_learning_rate=1e-2,
                              policy_learning_rate=1e-2, q_learning_rate=1e-2, seed=run.plan["seed"])
        comps = {"embedding": st.embedding, "embedding_opt": st.embedding_optimizer, "actor": st.actor,
                 "actor_opt": st.actor_optimizer, "critic": st.critic, "critic_opt": st.critic_optimizer}
        if run.plan.get("supply_targets"):
            comps["actor_target"] = nnx.clone(st.actor)
            comps["critic_target"] = nnx.clone(st.critic)
        return comps

    def make_buffer(self, run, size):
        from rl_blox.blox.replay_buffer import LAP

        return LAP(size)

    def call(self, run, link, global_step):
        from rl_blox.algorithm.td7 import train_td7

        c = run.plan["cfg"]
        m = run.comps
        return train_td7(
            run.env, embedding=m["embedding"], embedding_optimizer=m["embedding_opt"], actor=m["actor"],
            actor_optimizer=m["actor_opt"], critic=m["critic"], critic_optimizer=m["critic_opt"], seed=run.plan["seed"],
            total_timesteps=link["total_timesteps"], total_episodes=link.get("total_episodes"), buffer_size=c["buffer_size"],
            gamma=c["gamma"], target_delay=c["target_delay"], policy_delay=c["policy_delay"],
            exploration_noise=c["exploration_noise"], target_policy_noise=c["target_policy_noise"], noise_clip=c["noise_clip"],
            lap_alpha=c.get("lap_alpha", 0.4), lap_min_priority=c.get("lap_min_priority", 1.0),
            use_checkpoints=c["use_checkpoints"], max_episodes_when_checkpointing=c["max_episodes_when_checkpointing"],
            steps_before_checkpointing=c["steps_before_checkpointing"], reset_weight=c["reset_weight"],
            batch_size=c["batch_size"], learning_starts=c["learning_starts"], replay_buffer=run.buffer,
            actor_target=m.get("actor_target"), critic_target=m.get("critic_target"), logger=run.logger,
            global_step=global_step, progress_bar=False)

    def outcome(self, run, r):
        c = run.plan["cfg"]
        comps = {"embedding": r.embedding, "embedding_opt": r.embedding_optimizer, "actor_opt": r.actor_optimizer,
                 "critic": r.critic, "critic_target": r.critic_target, "critic_opt": r.critic_optimizer,
                 "actor_target": r.actor_target, "fixed_embedding_target": r.fixed_embedding_target}
        if c["use_checkpoints"]:
            comps["actor_checkpoint"] = r.actor
            comps["fixed_embedding_checkpoint"] = r.fixed_embedding
        else:
            comps["fixed_embedding"] = r.fixed_embedding
        return dict(buffer=r.replay_buffer, step=r.global_step, comps=comps)

    def acting(self, run):
        return run.comps["actor"]

    # dynamic schedule: one entry per observed marker
    def start_epoch(self, run, gs):
        return max(0, gs - run.plan["cfg"]["learning_starts"])

    def expect_marker(self, run, k, key, es):
        c = run.plan["cfg"]
        if k < c["learning_starts"]:
            return None
        if key == "actor_checkpoint":
            return ({"actor_checkpoint", "fixed_embedding_checkpoint"},
                    [("hard_from_start", "actor_checkpoint", "actor"), ("hard", "fixed_embedding_checkpoint", "fixed_embedding")])
        es["epoch"] += 1
        e = es["epoch"]
        allowed = {"embedding", "embedding_opt", "critic", "critic_opt"}
        ev = []
        if e % c["policy_delay"] == 0:
            allowed |= {"actor", "actor_opt"}
        if e % c["target_delay"] == 0:
            allowed |= {"actor_target", "critic_target", "fixed_embedding_target", "fixed_embedding"}
            ev = [("hard", "actor_target", "actor"), ("hard", "critic_target", "critic"),
                  ("hard_from_old", "fixed_embedding_target", "fixed_embedding"), ("hard", "fixed_embedding", "embedding")]
            es["target_updates"] = es.get("target_updates", 0) + 1
        return allowed, ev

    def expect(self, run, k, es):
        c = run.plan["cfg"]
        if k < c["learning_starts"]:
            return []
        if c["use_checkpoints"]:
            # without a logger the number of released train steps is not observable here (C15 decides it)
            return [(None, {"embedding", "embedding_opt", "critic", "critic_opt", "actor", "actor_opt", "actor_target",
                            "critic_target", "fixed_embedding_target", "fixed_embedding", "actor_checkpoint",
                            "fixed_embedding_checkpoint"}, [])]
        a, ev = self.expect_marker(run, k, "embedding loss", dict(es))
        return [("embedding loss", a, ev)]


class MRQ(OffPolicyCont):
    name = "mrq"
    marker_keys = ("reward scale", "q loss")
    epoch_map = {"policy_with_encoder_target": "pwe_target", "q_target": "q_target"}
    target_pairs = (("pwe_target", "pwe"), ("q_target", "q"))

    def cfg(self, rng, env_cfg, T=40):
        c = super().cfg(rng, env_cfg, T)
        eh = rng.choice([1, 2, 3])
        c.update(
            target_delay=rng.choice([1, 2, 3, 5]), encoder_horizon=eh, q_horizon=rng.choice([1, 2, 3]),
            learning_starts=rng.choice([6, 8, 10, 14]), buffer_size=rng.choice([16, 32, 64, 1000]),
            target_policy_noise=rng.choice([0.0, 0.2, 2.0]), done_weight=rng.choice([0.0, 0.1, 1.0]),
            n_bins=rng.choice([5, 9]),
        )
        return c

    def build(self, run):
        from flax import nnx
        from rl_blox.algorithm.mrq import create_mrq_state

        c = run.plan["cfg"]
        h = c["hidden"]
        st = create_mrq_state(run.env, policy_hidden_nodes=[h], q_hidden_nodes=[h], encoder_n_bins=c["n_bins"],
                              encoder_zs_dim=h, encoder_za_dim=h, encoder_zsa_dim=h, encoder_hidden_nodes=[h],
                              policy_learning_rate=1e-2, q_learning_rate=1e-2, encoder_learning_rate=1e-2,
                              seed=run.plan["seed"])
        run.the_bins = st.the_bins
        pwe = st.policy_with_encoder
        comps = {"pwe": pwe, "encoder": pwe.encoder, "policy": pwe.policy, "enc_opt": st.encoder_optimizer,
                 "policy_opt": st.policy_optimizer, "q": st.q, "q_opt": st.q_optimizer}
        if run.plan.get("supply_targets"):
            comps["pwe_target"] = nnx.clone(pwe)
            comps["q_target"] = nnx.clone(st.q)
        return comps

    def make_buffer(self, run, size):
        from rl_blox.blox.replay_buffer import SubtrajectoryReplayBufferPER

        c = run.plan["cfg"]
        return SubtrajectoryReplayBufferPER(size, horizon=max(c["encoder_horizon"], c["q_horizon"]))

    def call(self, run, link, global_step):
        from rl_blox.algorithm.mrq import train_mrq

        c = run.plan["cfg"]
        m = run.comps
        return train_mrq(
            run.env, m["pwe"], m["enc_opt"], m["policy_opt"], m["q"], m["q_opt"], run.the_bins, seed=run.plan["seed"],
            total_timesteps=link["total_timesteps"], total_episodes=link.get("total_episodes"), buffer_size=c["buffer_size"],
            gamma=c["gamma"], target_delay=c["target_delay"], batch_size=c["batch_size"],
            exploration_noise=c["exploration_noise"], target_policy_noise=c["target_policy_noise"], noise_clip=c["noise_clip"],
            lap_alpha=c.get("lap_alpha", 0.4), lap_min_priority=c.get("lap_min_priority", 1.0),
            learning_starts=c["learning_starts"], encoder_horizon=c["encoder_horizon"], q_horizon=c["q_horizon"],
            done_weight=c["done_weight"], replay_buffer=run.buffer, policy_with_encoder_target=m.get("pwe_target"),
            q_target=m.get("q_target"), logger=run.logger, global_step=global_step, progress_bar=False)

    def outcome(self, run, r):
        comps = {"pwe": r.policy_with_encoder, "encoder": r.policy_with_encoder.encoder, "policy": r.policy_with_encoder.policy,
                 "pwe_target": r.policy_with_encoder_target, "enc_opt": r.encoder_optimizer, "policy_opt": r.policy_optimizer,
                 "q": r.q, "q_target": r.q_target, "q_opt": r.q_optimizer}
        return dict(buffer=r.replay_buffer, step=r.global_step, comps=comps)

    def acting(self, run):
        return run.comps["pwe"]

    def opt_steps_per_update(self, run, name):
        return run.plan["cfg"]["target_delay"] if name == "enc_opt" else 1

    def expect(self, run, k, es):
        c = run.plan["cfg"]
        ls = c["learning_starts"]
        if k < ls:
            return []
        gs = es.get("call_start", run.start_step)  # global_step of the call this iteration belongs to (resume chains)
        e = max(0, gs - ls) + (k - max(gs, ls)) + 1
        out = []
        if e % c["target_delay"] == 0:
            out.append(("reward scale", {"pwe_target", "q_target", "encoder", "enc_opt", "pwe"},
                        [("hard_from_old", "pwe_target", "pwe"), ("hard_from_old", "q_target", "q")]))
        out.append(("q loss", {"q", "q_opt", "policy", "policy_opt", "pwe"}, []))
        return out


class PETS(Adapter):
    name = "pets"
    marker_keys = ("dynamics model loss",)
    has_global_step = False
    has_total_episodes = False
    returns_step = False
    update_before_act = True

    def cfg(self, rng, env_cfg, T=20):
        c = self._cfg(rng, env_cfg, T)
        # a model fit needs int(0.7 * n_samples) >= batch_size, otherwise it legitimately processes no batch
        if c["learning_starts"] < 6:
            c["batch_size"] = 2
        return c

    def _cfg(self, rng, env_cfg, T=20):
        return {
            "learning_starts": rng.choice([4, 5, 6, 8]), "n_steps_per_iteration": rng.choice([1, 2, 3, 5]),
            "buffer_size": rng.choice([8, 16, 1000]), "plan_horizon": rng.choice([1, 2, 3]), "n_particles": 2,
            "n_samples": 10, "n_opt_iter": rng.choice([1, 2]), "init_with_previous_plan": rng.random() < 0.5,
            "hidden": 4, "n_ensemble": 2, "batch_size": rng.choice([2, 4]),
        }

    def build(self, run):
        import jax
        import jax.numpy as jnp
        from rl_blox.algorithm.pets import create_pets_state
        from .probes import _make_cb

        c = run.plan["cfg"]
        dm = create_pets_state(run.env, seed=run.plan["seed"], n_ensemble=c["n_ensemble"], hidden_nodes=(c["hidden"],),
                               batch_size=c["batch_size"])
        run.dynamics_model = dm
        from . import probes

        probes._CURRENT["rec"] = run.recorder
        cb = _make_cb("acting")

        def reward_model(actions, obs):
            jax.debug.callback(cb, [obs[:, :, 0, :], actions[:, 0]], jnp.zeros(()))
            return -jnp.sum(actions ** 2, axis=-1) + 0.01 * jnp.sum(obs, axis=-1)

        run.reward_model = reward_model
        return {"ensemble": dm.model, "ensemble_opt": dm.optimizer}

    def call(self, run, link, global_step):
        from rl_blox.algorithm.pets import train_pets

        c = run.plan["cfg"]
        return train_pets(run.env, run.reward_model, run.dynamics_model, plan_horizon=c["plan_horizon"],
                          n_particles=c["n_particles"], n_samples=c["n_samples"], n_opt_iter=c["n_opt_iter"],
                          init_with_previous_plan=c["init_with_previous_plan"], seed=run.plan["seed"],
                          buffer_size=c["buffer_size"], total_timesteps=link["total_timesteps"],
                          learning_starts=c["learning_starts"], learning_starts_gradient_steps=2,
                          n_steps_per_iteration=c["n_steps_per_iteration"], gradient_steps=1, replay_buffer=run.buffer,
                          logger=run.logger, progress_bar=False)

    def outcome(self, run, r):
        return dict(buffer=r.replay_buffer, step=None, comps={"ensemble": run.dynamics_model.model, "ensemble_opt": run.dynamics_model.optimizer})

    def warmup_done(self, run, k):
        return k + 1 >= run.plan["cfg"]["learning_starts"]

    def expect(self, run, k, es):
        # the model update of loop iteration t=k+1 happens before env.step(k+1), i.e. after env.step(k)
        c = run.plan["cfg"]
        t = k + 1
        T = run.plan["chain"][-1]["total_timesteps"]
        if t < T and t >= c["learning_starts"] and (t - c["learning_starts"]) % c["n_steps_per_iteration"] == 0:
            return [("dynamics model loss", {"ensemble", "ensemble_opt"}, [])]
        return []

    def opt_steps_per_update(self, run, name):
        return ("min", 1)  # the number of steps per model fit is not documented, but a fit with data makes at least one

    def acting_obs(self, rec):
        o = np.asarray(rec[1][0])
        flat = o.reshape(-1, o.shape[-1])
        if not np.all(flat == flat[0]):
            return "mixed"
        return flat[0]


for a in (TD7(), MRQ(), PETS()):
    register(a)
