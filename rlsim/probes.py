"""Observation seams for TrainSim: state hashing, module probes, ProbeLogger."""
from __future__ import annotations

import hashlib

import numpy as np


def state_leaves(obj):
    """Ordered (path, numpy array) leaves of an nnx module / optimizer / pytree."""
    import jax
    from flax import nnx

    try:
        st = nnx.state(obj)
    except Exception:
        st = obj
    flat = jax.tree_util.tree_flatten_with_path(st)[0]
    out = []
    for path, leaf in flat:
        try:
            if jax.dtypes.issubdtype(leaf.dtype, jax.dtypes.prng_key):
                leaf = jax.random.key_data(leaf)
        except Exception:
            pass
        out.append((jax.tree_util.keystr(path), np.asarray(leaf)))
    return out


def state_hash(obj) -> str:
    h = hashlib.sha256()
    for path, a in state_leaves(obj):
        h.update(path.encode())
        h.update(str(a.dtype).encode())
        h.update(str(a.shape).encode())
        h.update(np.ascontiguousarray(a).tobytes())
    return h.hexdigest()[:24]


def params_only(obj):
    """Leaves restricted to nnx.Param (excludes rng counters, opt step)."""
    from flax import nnx
    import jax

    st = nnx.state(obj, nnx.Param)
    flat = jax.tree_util.tree_flatten_with_path(st)[0]
    return [(jax.tree_util.keystr(p), np.asarray(l)) for p, l in flat]


class Recorder:
    """Receives probe records (host callbacks)."""

    def __init__(self):
        self.records = []  # (tag, args tuple of np arrays, out np array)
        self.enabled = True

    def clear(self):
        self.records = []

    def take(self):
        import jax

        jax.effects_barrier()
        r, self.records = self.records, []
        return r


_PROBE_CLASSES = {}
_CURRENT = {"rec": None}  # one plan executes at a time per process; jit caches outlive a run, so
                          # callbacks resolve the recorder at call time, never at trace time


def probe(module, tag, recorder, method="__call__"):
    """Swap the instance's class for a subclass whose `method` additionally
    reports (args, out) through jax.debug.callback. Outputs are unchanged."""
    import jax

    _CURRENT["rec"] = recorder
    cls = type(module)
    if getattr(cls, "_rlsim_probed", None) == method:
        object.__setattr__(module, "_rlsim_tag", tag)
        return module
    key = (cls, method)
    if key not in _PROBE_CLASSES:
        orig = getattr(cls, method)

        def wrapped(self, *args, **kwargs):
            out = orig(self, *args, **kwargs)
            t = getattr(self, "_rlsim_tag", None)
            if t is not None:
                arrs = [a for a in args if hasattr(a, "shape") and hasattr(a, "dtype")
                        and getattr(a.dtype, "kind", "") in "fiub"]
                jax.debug.callback(_make_cb(t), arrs, out)
            return out

        sub = type("Probed" + cls.__name__, (cls,), {method: wrapped, "_rlsim_probed": method})
        _PROBE_CLASSES[key] = sub
    sub = _PROBE_CLASSES[key]
    object.__setattr__(module, "__class__", sub)
    object.__setattr__(module, "_rlsim_tag", tag)
    return module


_CB_CACHE = {}


def _make_cb(tag):
    if tag not in _CB_CACHE:
        def cb(arrs, out):
            rec = _CURRENT["rec"]
            if rec is not None and rec.enabled:
                rec.records.append((tag, [np.asarray(a) for a in arrs], np.asarray(out)))
        _CB_CACHE[tag] = cb
    return _CB_CACHE[tag]


def probe_function(module, name, tag, recorder):
    """Replace the module-level function `name` by a wrapper that additionally reports (array args, out) through
    jax.debug.callback (works on tracers inside jit / grad). Returns the undo triple."""
    import jax

    _CURRENT["rec"] = recorder
    orig = getattr(module, name)

    def wrapper(*args, **kwargs):
        out = orig(*args, **kwargs)
        arrs = [a for a in args if hasattr(a, "shape") and hasattr(a, "dtype") and getattr(a.dtype, "kind", "") in "fiub"]
        jax.debug.callback(_make_cb(tag), arrs, out)
        return out

    wrapper._rlsim_wrapped = orig
    setattr(module, name, wrapper)
    return (module, name, orig)


def make_probe_logger(on_event=None):
    """ProbeLogger subclasses the repository's LoggerBase (imported lazily)."""
    from rl_blox.logging.logger import LoggerBase

    class ProbeLoggerImpl(ProbeLogger, LoggerBase):
        pass

    return ProbeLoggerImpl(on_event)


class ProbeLogger:
    """Logger that records every call and lets monitors hook in."""

    def __init__(self, on_event=None):
        self.calls = []  # (kind, key, value/None, episode, step)
        self.on_event = on_event
        self.modules = {}  # key -> live module last handed out
        self._n_episodes = 0
        self.n_steps = 0

    @property
    def n_episodes(self):
        return self._n_episodes

    def _ev(self, *ev):
        self.calls.append(ev)
        if self.on_event is not None:
            self.on_event(ev)

    def start_new_episode(self):
        self._n_episodes += 1
        self._ev("start_new_episode")

    def stop_episode(self, total_steps):
        self.n_steps += total_steps
        self._ev("stop_episode", int(total_steps))

    def define_experiment(self, env_name=None, algorithm_name=None, hparams=None):
        self._ev("define_experiment")

    def define_checkpoint_frequency(self, key, frequency):
        self._ev("define_checkpoint_frequency", key, frequency)

    def record_stat(self, key, value, episode=None, step=None, t=None, verbose=None, format_str=None):
        try:
            v = np.asarray(value)
        except Exception:
            v = value
        self._ev("stat", key, v, episode, step)

    def record_epoch(self, key, value, episode=None, step=None, t=None):
        self.modules[key] = value
        self._ev("epoch", key, value, episode, step)

    def stats(self, key):
        return [c for c in self.calls if c[0] == "stat" and c[1] == key]
