"""TrainSim: complete train_* routines of rl-blox executed against a scripted
environment, with snapshot monitors on every module the harness can reach.

A plan:
  {"adapter": name, "seed": int, "env": {...SimEnv kwargs incl. script...},
   "cfg": {...hyper-parameters drawn by the adapter's cfg()...},
   "chain": [{"total_timesteps": T, "total_episodes": E|None}, ...],   # resume chain
   "logger": bool, "supply_targets": bool, "supply_buffer": bool,
   "clauses": [...], "faults": {...}}

Everything below draws nothing: all randomness is in the plan.
"""
from __future__ import annotations

import numpy as np

from .core import Result, raised_by_code_under_test
from .probes import Recorder, make_probe_logger, probe, state_leaves
from .simenv import SimAbort, SimEnv, obs_gid, obs_tag

# ----------------------------------------------------------------------------
# snapshots


class Snap:
    __slots__ = ("label", "k", "leaves", "_hash")

    def __init__(self, label, k, comps):
        self.label = label
        self.k = k
        self.leaves = {name: state_leaves(m) for name, m in comps.items() if m is not None}
        self._hash = {}

    def h(self, name):
        if name not in self._hash:
            import hashlib

            hh = hashlib.sha256()
            for p, a in self.leaves[name]:
                hh.update(p.encode())
                hh.update(str(a.dtype).encode() + str(a.shape).encode())
                hh.update(np.ascontiguousarray(a).tobytes())
            self._hash[name] = hh.hexdigest()[:20]
        return self._hash[name]


def changed(a: Snap, b: Snap):
    out = set()
    for n in b.leaves:
        if n in a.leaves and a.h(n) != b.h(n):
            out.add(n)
    return out


def opt_step(snap: Snap, name):
    """Optimizer step counter leaf (nnx.Optimizer.step)."""
    for p, a in snap.leaves.get(name, []):
        if p.endswith("['step'].value") or p.endswith("['step']") or ".step" in p:
            if a.shape == ():
                return int(a)
    return None


# ----------------------------------------------------------------------------
# adapters


class Adapter:
    name = ""
    discrete = False
    has_global_step = True
    has_total_episodes = True
    returns_step = True
    stops_exactly = True
    marker_keys = ()
    buffer_keys = "termination"  # or "sub"
    vector = False

    def cfg(self, rng, env_cfg):  # plan phase (pure)
        return {}

    def build(self, run):  # -> comps dict
        raise NotImplementedError

    def call(self, run, link, global_step):
        raise NotImplementedError

    def outcome(self, run, result):
        """-> dict(buffer=..., step=returned counter or None, comps={...})"""
        raise NotImplementedError

    def expect(self, run, k, epoch_state):
        """Documented update schedule of loop iteration k:
        list of (marker_key, allowed_components, target_events)."""
        return []

    def warmup_done(self, run, k):
        return True

    def acting(self, run):
        """(module whose unbatched call is the acting policy, tag) or None"""
        return None


def tiny_opt(lr=1e-2):
    import optax

    return optax.adam(lr)


def _common_cfg(rng, T):
    return {
        "learning_starts": rng.choice([0, 1, 2, 3, 5, 8, T // 3, T // 2, T - 1, T, T + 3]),
        "batch_size": rng.choice([2, 3, 4]),
        "buffer_size": rng.choice([1, 2, 3, 5, 8, 16, 64, 1000]),
        "gamma": rng.choice([0.0, 0.5, 0.9, 0.99, 1.0]),
        "hidden": rng.choice([3, 4]),
    }


class OffPolicyCont(Adapter):
    """DDPG / TD3 / TD3+LAP / SAC share construction."""

    def cfg(self, rng, env_cfg, T=40):
        c = _common_cfg(rng, T)
        c.update(
            tau=rng.choice([0.0, 0.005, 0.3, 0.3, 1.0]),
            policy_delay=rng.choice([1, 2, 2, 3, 4]),
            gradient_steps=rng.choice([1, 1, 2, 3]),
            exploration_noise=rng.choice([0.0, 0.0, 0.1, 0.2, 2.0]),
            noise_clip=rng.choice([0.0, 0.3, 0.5, 5.0]),
            init_scale=rng.choice([1.0, 1.0, 30.0]),
        )
        return c


def _perturb_supplied_targets(run, comps):
    """Supplied target networks that DIFFER from the online networks (as after a restore from an older checkpoint), and
    optionally only one of the two targets supplied: a spurious copy / re-clone is invisible while target == online."""
    f = run.plan.get("perturb_targets")
    if f:
        for k in ("policy_target", "q_target"):
            if k in comps:
                _scale_params(comps[k], f)
    only = run.plan.get("supply_only")
    if only == "q":
        comps.pop("policy_target", None)
    elif only == "policy" and "policy_target" in comps:
        comps.pop("q_target", None)


def _scale_params(module, factor):
    """Multiply all parameters by `factor` (saturating tanh heads)."""
    if factor == 1.0:
        return
    import jax
    from flax import nnx

    st = nnx.state(module, nnx.Param)
    st = jax.tree_util.tree_map(lambda x: x * factor, st)
    nnx.update(module, st)


class DDPG(OffPolicyCont):
    name = "ddpg"
    tanh_actor = True
    marker_keys = ("q loss",)
    fn = "train_ddpg"
    result_step = "steps_trained"

    def _create(self, run):
        from rl_blox.algorithm.ddpg import create_ddpg_state

        c = run.plan["cfg"]
        return create_ddpg_state(run.env, policy_hidden_nodes=[c["hidden"]], q_hidden_nodes=[c["hidden"]],
                                 policy_learning_rate=1e-2, q_learning_rate=1e-2, seed=run.plan["seed"])

    def build(self, run):
        from flax import nnx

        st = self._create(run)
        _scale_params(st.policy, run.plan["cfg"].get("init_scale", 1.0))
        comps = {"policy": st.policy, "policy_opt": st.policy_optimizer, "q": st.q, "q_opt": st.q_optimizer}
        if run.plan.get("supply_targets"):
            comps["policy_target"] = nnx.clone(st.policy)
            comps["q_target"] = nnx.clone(st.q)
            _perturb_supplied_targets(run, comps)
        return comps

    def _train(self):
        from rl_blox.algorithm import ddpg

        return ddpg.train_ddpg

    def _kwargs(self, run, c):
        return dict(tau=c["tau"], gradient_steps=c["gradient_steps"], exploration_noise=c["exploration_noise"])

    def call(self, run, link, global_step):
        c = run.plan["cfg"]
        m = run.comps
        kw = dict(seed=run.plan["seed"], total_timesteps=link["total_timesteps"], buffer_size=c["buffer_size"], gamma=c["gamma"],
                  batch_size=c["batch_size"], learning_starts=c["learning_starts"], replay_buffer=run.buffer,
                  logger=run.logger, global_step=global_step, progress_bar=False)
        if self.has_total_episodes:
            kw["total_episodes"] = link.get("total_episodes")
        kw.update(self._kwargs(run, c))
        if "policy_target" in m and self.name != "sac":
            kw["policy_target"] = m["policy_target"]
        if "q_target" in m:
            kw["q_target"] = m["q_target"]
        return self._train()(run.env, m["policy"], m["policy_opt"], m["q"], m["q_opt"], **kw)

    def outcome(self, run, r):
        comps = {"policy": r.policy, "policy_opt": r.policy_optimizer, "q": r.q, "q_opt": r.q_optimizer,
                 "q_target": r.q_target}
        if hasattr(r, "policy_target"):
            comps["policy_target"] = r.policy_target
        return dict(buffer=r.replay_buffer, step=getattr(r, self.result_step), comps=comps)

    def warmup_done(self, run, k):
        return k >= run.plan["cfg"]["learning_starts"]

    def expect(self, run, k, es):
        c = run.plan["cfg"]
        if k < c["learning_starts"]:
            return []
        ev = [("soft", "policy_target", "policy", c["tau"]), ("soft", "q_target", "q", c["tau"])]
        return [("q loss", {"q", "q_opt", "policy", "policy_opt", "policy_target", "q_target"}, ev)
                for _ in range(c["gradient_steps"])]

    def acting(self, run):
        return run.comps["policy"]

    epoch_map = {"policy_target": "policy_target", "q_target": "q_target"}
    target_pairs = (("policy_target", "policy"), ("q_target", "q"))


class TD3(DDPG):
    name = "td3"
    fn = "train_td3"
    result_step = "global_step"

    def _create(self, run):
        from rl_blox.algorithm.td3 import create_td3_state

        c = run.plan["cfg"]
        return create_td3_state(run.env, policy_hidden_nodes=[c["hidden"]], q_hidden_nodes=[c["hidden"]],
                                policy_learning_rate=1e-2, q_learning_rate=1e-2, seed=run.plan["seed"])

    def _train(self):
        from rl_blox.algorithm import td3

        return td3.train_td3

    def _kwargs(self, run, c):
        return dict(tau=c["tau"], policy_delay=c["policy_delay"], gradient_steps=c["gradient_steps"],
                    exploration_noise=c["exploration_noise"], noise_clip=c["noise_clip"])

    def expect(self, run, k, es):
        c = run.plan["cfg"]
        if k < c["learning_starts"]:
            return []
        out = []
        for _ in range(c["gradient_steps"]):
            if k % c["policy_delay"] == 0:
                out.append(("q loss", {"q", "q_opt", "policy", "policy_opt", "policy_target", "q_target"},
                            [("soft", "policy_target", "policy", c["tau"]), ("soft", "q_target", "q", c["tau"])]))
            else:
                out.append(("q loss", {"q", "q_opt"}, []))
        return out


class TD3LAP(TD3):
    name = "td3_lap"
    has_total_episodes = False

    def _train(self):
        from rl_blox.algorithm import td3_lap

        return td3_lap.train_td3_lap

    def _kwargs(self, run, c):
        return dict(tau=c["tau"], policy_delay=c["policy_delay"], gradient_steps=c["gradient_steps"],
                    exploration_noise=c["exploration_noise"], target_policy_noise=c.get("target_policy_noise", 0.2),
                    noise_clip=c["noise_clip"], lap_alpha=c.get("lap_alpha", 0.4), lap_min_priority=c.get("lap_min_priority", 1.0))

    def make_buffer(self, run, size):
        from rl_blox.blox.replay_buffer import LAP

        return LAP(size)


class SAC(DDPG):
    name = "sac"
    tanh_actor = False
    result_step = "global_step"
    deterministic_actor = False
    target_pairs = (("q_target", "q"),)

    def cfg(self, rng, env_cfg, T=40):
        c = super().cfg(rng, env_cfg, T)
        c.update(target_network_delay=rng.choice([1, 1, 2, 3]), autotune=rng.random() < 0.7, gradient_steps=1)
        return c

    def _create(self, run):
        from rl_blox.algorithm.sac import create_sac_state

        c = run.plan["cfg"]
        return create_sac_state(run.env, policy_hidden_nodes=[c["hidden"]], q_hidden_nodes=[c["hidden"]],
                                policy_learning_rate=1e-2, q_learning_rate=1e-2, seed=run.plan["seed"])

    def build(self, run):
        from flax import nnx
        from rl_blox.algorithm.sac import EntropyControl

        st = self._create(run)
        c = run.plan["cfg"]
        comps = {"policy": st.policy, "policy_opt": st.policy_optimizer, "q": st.q, "q_opt": st.q_optimizer}
        if run.plan.get("supply_targets"):
            comps["q_target"] = nnx.clone(st.q)
            if run.plan.get("perturb_targets"):
                _scale_params(comps["q_target"], run.plan["perturb_targets"])
        run.entropy_control = EntropyControl(run.env, 0.2, c["autotune"], 1e-2)
        return comps

    def _train(self):
        from rl_blox.algorithm import sac

        return sac.train_sac

    def _kwargs(self, run, c):
        return dict(tau=c["tau"], policy_delay=c["policy_delay"], target_network_delay=c["target_network_delay"],
                    autotune=c["autotune"], entropy_control=run.entropy_control)

    def opt_steps_per_update(self, run, name):
        # documented: "compensate for delay by doing 'policy_delay' updates"
        return run.plan["cfg"]["policy_delay"] if name in ("policy_opt", "alpha_opt") else 1

    def extra_comps(self, run):
        ec = run.entropy_control
        d = {"alpha": _Box(lambda: getattr(ec, "_alpha", None))}
        if getattr(ec, "optimizer", None) is not None:
            d["alpha_opt"] = ec.optimizer
        return d

    def expect(self, run, k, es):
        c = run.plan["cfg"]
        if k < c["learning_starts"]:
            return []
        allowed = {"q", "q_opt"}
        ev = []
        if k % c["policy_delay"] == 0:
            allowed |= {"policy", "policy_opt"}
            if c["autotune"]:
                allowed |= {"alpha", "alpha_opt"}
        if k % c["target_network_delay"] == 0:
            allowed |= {"q_target"}
            ev.append(("soft", "q_target", "q", c["tau"]))
        return [("q loss", allowed, ev)]


class _Box:
    """Adapter for non-module state that should be snapshotted (a getter)."""

    def __init__(self, getter):
        self.getter = getter


class DQNFamily(Adapter):
    discrete = True
    marker_keys = ("q loss",)
    target_pairs = (("q_target", "q"),)

    def cfg(self, rng, env_cfg, T=40):
        c = _common_cfg(rng, T)
        c.update(update_frequency=rng.choice([1, 1, 2, 3]), target_update_frequency=rng.choice([1, 2, 3, 5, 7]),
                 learning_starts=rng.choice([0, 0, 2, 5, T // 2]))
        return c

    def build(self, run):
        import optax
        from flax import nnx
        from rl_blox.blox.function_approximator.mlp import MLP

        c = run.plan["cfg"]
        e = run.plan["env"]
        q = MLP(e["obs_dim"], e["discrete"], [c["hidden"]], "relu", nnx.Rngs(run.plan["seed"]))
        opt = nnx.Optimizer(q, optax.adam(c.get("lr", 1e-2)), wrt=nnx.Param)
        comps = {"q": q, "q_opt": opt}
        if run.plan.get("supply_targets") and self.name != "dqn":
            comps["q_target"] = nnx.clone(q)
            if run.plan.get("perturb_targets"):
                _scale_params(comps["q_target"], run.plan["perturb_targets"])
        return comps

    def make_buffer(self, run, size):
        from rl_blox.blox.replay_buffer import ReplayBuffer

        return ReplayBuffer(size, discrete_actions=True)

    def acting(self, run):
        return run.comps["q"]

    def warmup_done(self, run, k):
        return k > run.plan["cfg"]["batch_size"]


class DQN(DQNFamily):
    name = "dqn"
    has_total_episodes = False

    def call(self, run, link, global_step):
        from rl_blox.algorithm.dqn import train_dqn

        c = run.plan["cfg"]
        return train_dqn(run.comps["q"], run.env, run.buffer, run.comps["q_opt"], batch_size=c["batch_size"],
                         total_timesteps=link["total_timesteps"], gamma=c["gamma"], seed=run.plan["seed"],
                         logger=run.logger, global_step=global_step, progress_bar=False)

    def outcome(self, run, r):
        return dict(buffer=r.replay_buffer, step=r.global_step, comps={"q": r.q_net, "q_opt": r.optimizer})

    def expect(self, run, k, es):
        c = run.plan["cfg"]
        if k > c["batch_size"]:
            return [("q loss", {"q", "q_opt"}, [])]
        return []


class NatureDQN(DQNFamily):
    name = "nature_dqn"
    mod = "nature_dqn"
    fn = "train_nature_dqn"

    def call(self, run, link, global_step):
        import importlib

        f = getattr(importlib.import_module("rl_blox.algorithm." + self.mod), self.fn)
        c = run.plan["cfg"]
        kw = dict(batch_size=c["batch_size"], total_timesteps=link["total_timesteps"], total_episodes=link.get("total_episodes"),
                  gamma=c["gamma"], update_frequency=c["update_frequency"], target_update_frequency=c["target_update_frequency"],
                  learning_starts=c["learning_starts"], q_target_net=run.comps.get("q_target"), seed=run.plan["seed"],
                  logger=run.logger, global_step=global_step, progress_bar=False)
        kw.update(self.extra_kwargs(run))
        return f(run.comps["q"], run.env, run.buffer, run.comps["q_opt"], **kw)

    def extra_kwargs(self, run):
        if self.name == "ddqn_per":
            return {"per_alpha": run.plan["cfg"].get("per_alpha", 0.6)}
        return {}

    def outcome(self, run, r):
        return dict(buffer=getattr(r, "replay_buffer", run.buffer), step=getattr(r, "global_step", None),
                    comps={"q": r.q_net, "q_opt": r.optimizer, "q_target": r.q_target_net})

    def expect(self, run, k, es):
        c = run.plan["cfg"]
        out = []
        if k > c["batch_size"]:
            if k % c["update_frequency"] == 0:
                out.append(("q loss", {"q", "q_opt"}, []))
            if k % c["target_update_frequency"] == 0:
                out.append((None, {"q_target"}, [("hard", "q_target", "q")]))
        return out


class DDQN(NatureDQN):
    name = "ddqn"
    mod = "ddqn"
    fn = "train_ddqn"


class DDQNPER(NatureDQN):
    name = "ddqn_per"
    mod = "per"
    fn = "train_ddqn_per"
    marker_keys = ("weighted loss",)
    returns_step = False

    def make_buffer(self, run, size):
        from rl_blox.blox.replay_buffer import PrioritizedReplayBuffer

        return PrioritizedReplayBuffer(size, discrete_actions=True)

    def expect(self, run, k, es):
        out = super().expect(run, k, es)
        return [("weighted loss" if m == "q loss" else m, a, e) for m, a, e in out]


ADAPTERS = {a.name: a for a in [DDPG(), TD3(), TD3LAP(), SAC(), DQN(), NatureDQN(), DDQN(), DDQNPER()]}


def register(adapter):
    ADAPTERS[adapter.name] = adapter
    return adapter


# ----------------------------------------------------------------------------
# the run


class TrainRun:
    def __init__(self, plan):
        self.plan = plan
        self.res = Result()
        self.cl = set(plan["clauses"])
        self.prop = plan["check"]
        self.adapter = ADAPTERS[plan["adapter"]]
        self.site = "train_" + self.adapter.name
        self.snaps = []
        self.recorder = Recorder()
        self.logger = None
        self.buffer = None
        self.comps = {}
        self.entropy_control = None
        self.monitor = plan.get("monitor", False)
        self.iter_k = None
        self.aborted = None
        self.incomplete_last_iteration = False
        self.log_events = []

    def V(self, clause, detail, site=None):
        clause = self.plan.get("alias", {}).get(clause, clause)
        self.res.violate(clause, site or self.site, detail)

    # -- construction
    def make_env(self):
        e = dict(self.plan["env"])
        e.pop("kind", None)
        e.pop("scripts", None)
        if e.pop("rescale", None):
            from .simenv import RescaledSimEnv

            return RescaledSimEnv(SimEnv(**e))
        return SimEnv(**e)

    def sub_envs(self):
        return self.envs if getattr(self, "envs", None) else [self.env]

    def make_vector(self):
        """Real SyncVectorEnv (SAME_STEP autoreset, the mode PPO asserts) over 1-3 SimEnvs with different scripts."""
        import gymnasium as gym

        n = self.plan["cfg"]["num_envs"]
        scripts = self.plan["env"].get("scripts") or [self.plan["env"]["script"]] * n
        self.envs = []
        for i in range(n):
            e = dict(self.plan["env"])
            e.pop("scripts", None)
            e["script"] = scripts[i % len(scripts)]
            e["space_seed"] = e.get("space_seed", 0) + i
            e["name"] = f"env{i}"
            e["gid_offset"] = 30000 * i  # disjoint observation-tag ranges per environment
            self.envs.append(SimEnv(**e))
        fns = [(lambda env=env: env) for env in self.envs]
        vec = gym.vector.SyncVectorEnv(fns, autoreset_mode=gym.vector.AutoresetMode.SAME_STEP)
        if self.adapter.name == "a2c":
            vec = gym.wrappers.vector.RecordEpisodeStatistics(vec)
        return vec

    def all_comps(self):
        d = dict(self.comps)
        if hasattr(self.adapter, "extra_comps"):
            d.update(self.adapter.extra_comps(self))
        out = {}
        for k, v in d.items():
            if isinstance(v, _Box):
                v = v.getter()
            out[k] = v
        return out

    def snapshot(self, label, k=None):
        if not self.monitor:
            return
        if self.monitor == "final" and label[0] != "return":
            return
        import jax

        jax.effects_barrier()
        self.snaps.append(Snap(label, k, self.all_comps()))

    # -- env / logger hooks
    def on_env(self, kind, env, info):
        if kind == "step":
            self.iter_k = self.start_step + (env.n_steps - self.steps_at_call)
            self.snapshot(("step",), self.iter_k)
            self.check_acting(env, info)
        elif not self.adapter.vector:  # SAME_STEP autoreset resets inside the vector step
            self.snapshot(("reset",), self.iter_k)

    def on_log(self, ev):
        self.log_events.append((self.iter_k, ev))
        if ev[0] == "epoch":
            key, mod = ev[1], ev[2]
            name = self.epoch_key_to_comp(key)
            if name is not None and name not in self.comps:
                self.comps[name] = mod  # first sight of a module created inside the routine
        if ev[0] == "stat" and ev[1] in self.adapter.marker_keys:
            self.snapshot(("marker", ev[1]), self.iter_k)
        elif ev[0] == "epoch" and ev[1] in getattr(self.adapter, "epoch_markers", ()):
            self.snapshot(("marker", ev[1]), self.iter_k)

    def epoch_key_to_comp(self, key):
        m = getattr(self.adapter, "epoch_map", None)
        if m is None:
            return None
        return m.get(key)

    # -- C01.c / C13.a / C10 at the moment of env.step
    def check_acting(self, env, action):
        pass  # filled in by monitors (see monitors.py); kept as a hook

    # -- main
    def run(self):
        from . import monitors

        plan = self.plan
        self.env = self.make_env()
        self.envs = None
        if self.adapter.vector:
            self.vec = self.make_vector()
            self.env = self.envs[0]
        self.comps = self.adapter.build(self)
        undo = self.adapter.install(self) if hasattr(self.adapter, "install") else []
        size = plan["cfg"].get("buffer_size", 1000)
        if plan.get("default_buffer"):
            self.buffer = None  # the routine creates its own buffer (replay_buffer=None)
        elif plan.get("supply_buffer", True) or hasattr(self.adapter, "make_buffer"):
            if hasattr(self.adapter, "make_buffer"):
                self.buffer = self.adapter.make_buffer(self, size)
            else:
                from rl_blox.blox.replay_buffer import ReplayBuffer

                self.buffer = ReplayBuffer(size)
        if plan.get("faults", {}).get("buffer"):
            from . import faultbuf

            self.buffer = faultbuf.wrap(self, self.buffer)
        self.memory_logger = None
        if plan.get("logger", True):
            self.logger = make_probe_logger(self.on_log)
            if plan.get("memory_logger"):
                from rl_blox.logging.logger import LoggerList, MemoryLogger

                self.memory_logger = MemoryLogger()
                self.logger = LoggerList([self.logger, self.memory_logger])
        self.env.listeners.append(self.on_env)
        mons = monitors.attach(self)
        self._undo = undo
        start = plan.get("start_step", 0)
        self.calls = []
        gs = start
        for link in plan["chain"]:
            if gs >= 200:
                self.res.fault("large_global_step")
            if link.get("global_step") is not None:
                gs = link["global_step"]  # e.g. a fresh run (global_step=0) that re-uses the buffer of an earlier one
                self.res.fault("restart_counter_with_reused_state")
            if self.calls:
                for name in getattr(self.adapter, "internal_comps", ()):
                    self.comps.pop(name, None)  # re-created inside the next call; observed again from their first record_epoch
            self.start_step = gs
            self.steps_at_call = self.env.n_steps
            self.steps_at_call_all = sum(e.n_steps for e in self.sub_envs())
            resets_before = self.env.n_resets
            episodes_before = sum(1 for e in self.sub_envs() for s in e.steps() if s["term"] or s["trunc"])
            self.snapshot(("call",), gs)
            err = None
            result = None
            try:
                result = self.adapter.call(self, link, gs)
            except SimAbort as e:
                self.aborted = str(e)
            except Exception as e:
                if not raised_by_code_under_test(e):
                    raise
                err = e
            import jax

            jax.effects_barrier()
            executed = sum(e.n_steps for e in self.sub_envs()) - self.steps_at_call_all
            st_all = [s for e in self.sub_envs() for s in e.steps()] if self.adapter.vector else self.env.steps()
            rec = {"link": link, "start": gs, "executed": executed, "last_done": bool(executed and (st_all[-1]["term"] or st_all[-1]["trunc"])), "error": repr(err) if err else None,
                   "aborted": self.aborted, "episodes": sum(1 for e in self.sub_envs() for s in e.steps() if s["term"] or s["trunc"]) - episodes_before}
            if result is not None:
                out = self.adapter.outcome(self, result)
                rec["returned_step"] = out.get("step")
                for k, v in out["comps"].items():
                    self.comps[k] = v
                if out.get("buffer") is not None:
                    self.buffer_out = out["buffer"]
                self.snapshot(("return",), gs + executed)
            self.calls.append(rec)
            self.res.log.add("call", {k: v for k, v in rec.items() if k != "link"})
            if err is not None:
                self.incomplete_last_iteration = True  # the routine stopped in the middle of an iteration
                if isinstance(err, ValueError) and "No valid entry to sample" in str(err):
                    # the prioritised sub-trajectory buffer refuses to sample while every start is masked out
                    # (e.g. only truncated episodes shorter than the horizon so far): loud, not a violation
                    self.res.probe("sampling_refused_no_valid_entry")
                    break
                self.V(f"{self.prop}.raise", f"{type(err).__name__}: {err}")
                break
            if self.aborted:
                self.incomplete_last_iteration = True
                break
            # resume with the counter the routine reported (that is what a user would do)
            gs = rec.get("returned_step") if rec.get("returned_step") is not None else gs + executed
        for mod, attr, orig in self._undo:
            setattr(mod, attr, orig)
        for m in mons:
            m.finish()
        self.finish_log()
        return self.res

    def finish_log(self):
        env = self.env
        self.res.simt("env_steps", sum(x.n_steps for x in self.sub_envs()))
        self.res.simt("episodes", sum(1 for x in self.sub_envs() for s in x.steps() if s["term"] or s["trunc"]))
        self.res.simt("snapshots", len(self.snaps))
        # schedule faults that actually fired in this run (episode cuts placed by the environment scheduler)
        cfg = self.plan.get("cfg", {})
        ls, N = cfg.get("learning_starts"), cfg.get("buffer_size")
        for x in self.sub_envs():
            for st in x.steps():
                if not (st["term"] or st["trunc"]):
                    continue
                self.res.fault("episode_end_" + ("both" if st["term"] and st["trunc"] else "terminated" if st["term"] else "truncated"))
                if st["t"] == 0:
                    self.res.fault("one_step_episode_cut")
                k = self.plan.get("start_step", 0) + st["i"]
                if ls is not None and k in (ls - 1, ls):
                    self.res.fault("episode_end_at_warmup_boundary")
                if N and (st["i"] + 1) % N == 0:
                    self.res.fault("episode_end_at_ring_wrap")
        for e in [ev for x in self.sub_envs() for ev in x.log]:
            if e["k"] == "step":
                self.res.log.add("s", e["i"], e["a"], e["gid0"], e["gid1"], e["r"], e["term"], e["trunc"])
            elif e["k"] == "reset":
                self.res.log.add("r", e["gid"], e["seed"])
            else:
                self.res.log.add("x", e["v"])
        pl = self.logger
        if self.memory_logger is not None:
            pl = self.logger.loggers[0]
        if pl is not None:
            for c in pl.calls:
                if c[0] == "stat":
                    self.res.log.add("ls", c[1], c[2], c[3], c[4])
                elif c[0] == "epoch":
                    self.res.log.add("le", c[1], c[3], c[4])
                else:
                    self.res.log.add("l", *c)
        for s in self.snaps[-1:]:
            for n in sorted(s.leaves):
                self.res.log.add("final", n, s.h(n))
        if self.memory_logger is not None:
            for key in sorted(self.memory_logger.stats):
                xe, y = self.memory_logger.get_stat(key, "episode")
                xs, _ = self.memory_logger.get_stat(key, "step")
                self.res.log.add("mem", key, np.asarray(xe), np.asarray(xs), np.asarray(y, dtype=np.float64))
        buf = getattr(self, "buffer_out", None) or self.buffer
        buf = getattr(buf, "inner", buf)
        if buf is not None and hasattr(buf, "buffer"):
            n = len(buf)
            for key, arr in buf.buffer.items():
                self.res.log.add("buf", key, np.asarray(arr[:n]))
        sig = [self.adapter.name]
        sig += [str(self.plan["cfg"].get(k)) for k in sorted(self.plan["cfg"])]
        sig += [",".join(sorted(self.res.faults))]
        self.res.signature = "|".join(sig)


def execute(plan):
    return TrainRun(plan).run()


from . import adapters2  # noqa: E402,F401  (registers TD7, MR.Q, PETS)
from . import adapters3  # noqa: E402,F401  (registers REINFORCE, actor-critic, A2C, PPO, CMA-ES)
