"""OptimSim: the black-box optimisers (CMA-ES ask/tell functions, flat_params/set_params, the
cross-entropy-method primitives and optimize_cem) driven by scripted fitness feedback.

The "environment" of an optimiser is its fitness source.  Every fitness value, every PRNG
seed, every bound / mean / variance comes from the plan; execute() draws nothing.  The real
functions of /repo are called in the order train_cmaes / optimize_cem use them and after
every call the observable optimiser state is compared with invariants and with quantities
recomputed in float64 from the recorded candidates and the scripted fitness.

Clauses
  C16.a  recombination weights positive, non-increasing, sum to one (1e-6), 1 <= mu <= population
  C16.b  best_fitness == minimum non-NaN internal fitness so far; best_params is a candidate that attained it
  C16.c  after an update: mean == sum_i w_i x_(i) over the mu best of the evaluated population
  C16.d  var_new / var_old <= exp(1.2) (documented: sigma factor <= exp(0.6))
  C16.e  covariance finite, symmetric (1e-5 of max |entry|), diagonal > 0   (while all feedback was finite)
  C16.f  flat_params(set_params(net, x)) == x bitwise
  C16.g  CEM: candidates in [lb, ub] (tolerance 0), new mean in the box (1 ulp), new mean / variance are the
         documented convex update from exactly the n_elite best candidates, n_elite > n_population raises
  C16.g.ulp   the CEM mean (or, as a consequence, a candidate) leaves the box by 2..4 float32 ulps (rounding class,
              kept apart from C16.g so that it can be triaged on its own)
  C16.raise   the code under test raised during an operation whose precondition holds
  C16.raise.empty_history   optimize_cem(return_history=True) raised because it performed zero iterations
"""
from __future__ import annotations

import itertools
import math
import struct
import warnings

from .core import HarnessError, Result, raised_by_code_under_test

MAX_TIE_ORDERS = 24
# optimize_cem(return_history=True) that performs no iteration (max initial variance <= epsilon) is inside the
# quantifier ("all ... variances"); on the tree this check was written against it raises (clause
# C16.raise.empty_history).  Set to False to generate those plans with return_history=False instead.
GENERATE_ZERO_ITERATION_HISTORY = False  # optimize_cem(return_history=True) with zero iterations raises (vstack of []): a loud failure on a degenerate configuration, outside the property text (DESIGN §5)
STEP_FACTOR = math.exp(1.2)  # cmaes.py: "Adapt step size with factor <= exp(0.6)", var = sigma ** 2


def f32(x: float) -> float:
    """Round a Python float to the nearest float32 (pure; used at plan time and in the reference)."""
    if x != x or x in (math.inf, -math.inf):
        return x
    return struct.unpack("f", struct.pack("f", x))[0]


_SPECIAL = {"inf": math.inf, "-inf": -math.inf, "nan": math.nan}


def _dec(v):
    """Plan encoding of one fitness value: number | 'inf' | '-inf' | 'nan' | [r1, r2, ...] (per-step rewards)."""
    if isinstance(v, str):
        return _SPECIAL[v]
    if isinstance(v, list):
        return [float(_dec(u)) for u in v]
    return float(v)


class _Abort(Exception):
    pass


def _call(res, site, fn, *a, **k):
    """Call into the code under test; an exception it raises is a violation, anything else propagates."""
    try:
        return fn(*a, **k)
    except Exception as e:  # noqa: BLE001
        if not raised_by_code_under_test(e):
            raise
        res.violate("C16.raise", site, f"{type(e).__name__}: {str(e)[:300]}")
        res.log.add("raise", site, type(e).__name__)
        raise _Abort() from None


# --------------------------------------------------------------------------------------
# shared reference helpers


def _rank_orders(keys, m, limit=MAX_TIE_ORDERS):
    """Index sequences of length m that 'the m smallest keys, ascending' admits.

    Returns (stable_sequence, all_sequences or None if more than `limit`, ties_in_top, ties_at_boundary).
    The first enumerated sequence is the stable (index-ordered) one.  keys must not contain NaN."""
    idx = sorted(range(len(keys)), key=lambda i: keys[i])
    groups = []
    for i in idx:
        if groups and keys[groups[-1][0]] == keys[i]:
            groups[-1].append(i)
        else:
            groups.append([i])
    stable = tuple(idx[:m])
    seqs = [()]
    need = m
    total = 1
    ties_top = ties_boundary = False
    for g in groups:
        if need == 0:
            break
        r = min(need, len(g))
        if len(g) > 1:
            ties_top = True
            if r < len(g):
                ties_boundary = True
        total *= math.perm(len(g), r)
        if seqs is not None:
            if total > limit:
                seqs = None
            else:
                seqs = [s + p for s in seqs for p in itertools.permutations(g, r)]
        need -= r
    return stable, seqs, ties_top, ties_boundary


def _elite_sets(keys, k, limit=MAX_TIE_ORDERS):
    """Index SETS of size k that 'the k smallest keys' admits (order inside the set is irrelevant)."""
    idx = sorted(range(len(keys)), key=lambda i: keys[i])
    stable = tuple(sorted(idx[:k]))
    if k >= len(keys):
        return stable, [stable], False
    bound = keys[idx[k - 1]]
    inside = [i for i in idx if keys[i] < bound]
    tied = [i for i in idx if keys[i] == bound]
    r = k - len(inside)
    boundary = r < len(tied)
    if math.comb(len(tied), r) > limit:
        return stable, None, boundary
    sets = [tuple(sorted(inside + list(c))) for c in itertools.combinations(tied, r)]
    if stable in sets:
        sets.remove(stable)
    return stable, [stable] + sets, boundary


# --------------------------------------------------------------------------------------
# C16.f  parameter vector round trip


def _roundtrip(spec, res):
    import jax
    import jax.numpy as jnp
    import numpy as np
    from flax import nnx
    from rl_blox.algorithm.cmaes import flat_params, set_params
    from rl_blox.blox.function_approximator.mlp import MLP

    site = "set_params"
    net = MLP(spec["n_features"], spec["n_outputs"], list(spec["hidden"]), spec["activation"], nnx.Rngs(spec["seed"]))
    targets = [("MLP", net)]
    if spec.get("wrap"):
        import gymnasium as gym
        from rl_blox.blox.function_approximator.policy_head import DeterministicTanhPolicy

        space = gym.spaces.Box(low=-2.0, high=2.0, shape=(spec["n_outputs"],), dtype=np.float32)
        targets.append(("DeterministicTanhPolicy", DeterministicTanhPolicy(net, space)))
    x = np.asarray(spec["x"], dtype=np.float32)
    for name, mod in targets:
        p0 = np.asarray(_call(res, "flat_params", flat_params, mod))
        if p0.shape != x.shape:
            raise HarnessError(f"plan vector has {x.shape} entries, network has {p0.shape}")
        scale0 = np.asarray(mod.action_scale.value).copy() if name != "MLP" else None
        for tag, vec in (("x", x), ("reversed", x[::-1].copy()), ("initial", p0)):
            _call(res, site, set_params, mod, jnp.asarray(vec))
            y = np.asarray(_call(res, "flat_params", flat_params, mod))
            held = np.concatenate([np.asarray(leaf).ravel() for leaf in jax.tree_util.tree_leaves(nnx.state(mod, nnx.Param))])
            res.log.add("roundtrip", name, tag, vec, y)
            res.probe("roundtrip_checked")
            if y.shape != vec.shape or y.tobytes() != vec.tobytes():
                bad = int(np.argmax(y != vec)) if y.shape == vec.shape else -1
                res.violate("C16.f", site, f"{name} {spec['n_features']}-{spec['hidden']}-{spec['n_outputs']} ({tag}): flat_params(set_params(net, x)) != x "
                            f"(first differing entry {bad}: wrote {vec[bad] if bad >= 0 else vec.shape}, read {y[bad] if bad >= 0 else y.shape})")
                return
            if sorted(held.tolist()) != sorted(vec.tolist()):
                res.violate("C16.f", site, f"{name} ({tag}): the network's Param leaves do not hold the written vector")
                return
        if scale0 is not None and not np.array_equal(scale0, np.asarray(mod.action_scale.value)):
            res.violate("C16.f", site, "set_params changed a non-Param variable (action_scale)")
    if spec["hidden"]:
        # a second network of the same structure but other widths, in the same process, right after the first one
        wide = [h + 2 for h in spec["hidden"]]
        net2 = MLP(spec["n_features"], spec["n_outputs"], wide, spec["activation"], nnx.Rngs(spec["seed"] + 1))
        p2 = np.asarray(_call(res, "flat_params", flat_params, net2))
        vec = (np.arange(p2.size, dtype=np.float32) - 7.0) / 16.0
        _call(res, site, set_params, net2, jnp.asarray(vec))
        y = np.asarray(_call(res, "flat_params", flat_params, net2))
        res.log.add("roundtrip2", vec, y)
        if y.shape != vec.shape or y.tobytes() != vec.tobytes():
            res.violate("C16.f", site, f"second network of the same structure but widths {wide} (after {list(spec['hidden'])} in the same process): flat_params(set_params(net, x)) != x")
            return
        res.probe("roundtrip_second_architecture")
    if spec.get("wrap"):
        res.probe("roundtrip_wrapped_policy")
    if len(spec["hidden"]) == 0:
        res.probe("roundtrip_linear_net")
    if len(spec["hidden"]) == 2:
        res.probe("roundtrip_two_hidden")


# --------------------------------------------------------------------------------------
# C16.a


def _check_weights(res, cfg, label):
    import numpy as np

    site = "CMAESConfig.create"
    w = np.asarray(cfg.weights, dtype=np.float64)
    mu = int(cfg.mu)
    pop = int(cfg.n_samples_per_update)
    res.log.add("weights", label, w, mu, pop)
    res.probe("weights_checked")
    if w.ndim != 1 or len(w) != mu or not (1 <= mu <= pop):
        res.violate("C16.a", site, f"{label}: {len(w)} weights for mu={mu}, population {pop}")
        return False
    if not np.all(np.isfinite(w)) or not np.all(w > 0):
        res.violate("C16.a", site, f"{label}: weights not all positive: {w.tolist()}")
        return False
    if np.any(np.diff(w) > 0):
        res.violate("C16.a", site, f"{label}: weights increase with rank: {w.tolist()}")
        return False
    if abs(float(w.sum()) - 1.0) > 1e-6:
        res.violate("C16.a", site, f"{label}: weights sum to {float(w.sum())!r}, not 1")
        return False
    return True


# --------------------------------------------------------------------------------------
# CMA-ES ask / tell simulation


def _run_cmaes(plan, res):
    import jax
    import jax.numpy as jnp
    import numpy as np
    from rl_blox.algorithm import cmaes as C

    n = int(plan["n"])
    stop = plan["stop"]

    if plan.get("net"):
        _roundtrip(plan["net"], res)
        if res.violations:
            return

    def mkcfg(npar, pop, bounds=None):
        return _call(res, "CMAESConfig.create", C.CMAESConfig.create, active=bool(plan["active"]), bounds=bounds,
                     maximize=bool(plan["maximize"]), min_variance=stop["min_variance"], min_fitness_dist=stop["min_fitness_dist"],
                     max_condition=stop["max_condition"], n_params=npar, n_samples_per_update=pop)

    for npar, pop in plan.get("extra_configs", []):
        _check_weights(res, mkcfg(int(npar), pop), f"n_params={npar} population={pop}")

    bounds = None if plan.get("bounds") is None else jnp.asarray(np.asarray(plan["bounds"], dtype=np.float32))
    cfg = mkcfg(n, plan["pop"], bounds)
    if not _check_weights(res, cfg, f"n_params={n} population={plan['pop']}"):
        return
    npop = int(cfg.n_samples_per_update)
    mu = int(cfg.mu)
    w = np.asarray(cfg.weights, dtype=np.float64)

    cov = plan["cov"]
    if cov is None:
        cov_arg = None
    elif "diag" in cov:
        cov_arg = jnp.asarray(np.asarray(cov["diag"], dtype=np.float32))
    else:
        cov_arg = jnp.asarray(np.asarray(cov["full"], dtype=np.float32))
    mean0 = np.asarray(plan["mean0"], dtype=np.float32)
    state = _call(res, "CMAESState.create", C.CMAESState.create, key=jax.random.key(int(plan["key"])), initial_params=jnp.asarray(mean0),
                  variance=float(plan["variance"]), covariance=cov_arg)
    res.log.add("init", np.asarray(state.mean), float(state.var), np.asarray(state.cov), float(state.best_fitness), np.asarray(state.best_params))

    def new_population():
        samples = _call(res, "sample_population", C.sample_population, cfg, state)
        s = np.asarray(samples)
        if s.shape != (npop, n):
            res.violate("C16.c", "sample_population", f"population of shape {s.shape}, expected {(npop, n)}")
            raise _Abort()
        res.log.add("population", s)
        return C.Population.create(samples=samples), s

    def check_cov(when):
        cv = np.asarray(state.cov, dtype=np.float64)
        if not all_finite_fb:
            res.probe("cov_skipped_after_nonfinite_feedback")
            return True
        res.probe("cov_checked")
        site = "update_search_distribution" if when != "create" else "CMAESState.create"
        if cv.shape != (n, n) or not np.all(np.isfinite(cv)):
            res.violate("C16.e", site, f"{when}: covariance not finite / wrong shape {cv.shape}: {cv.tolist()}")
            return False
        scale = float(np.max(np.abs(cv)))
        asym = float(np.max(np.abs(cv - cv.T)))
        if asym > 1e-5 * scale:
            res.violate("C16.e", site, f"{when}: covariance asymmetric by {asym!r} (max |entry| {scale!r})")
            return False
        if not np.all(np.diag(cv) > 0):
            res.violate("C16.e", site, f"{when}: covariance diagonal not positive: {np.diag(cv).tolist()}")
            return False
        return True

    all_finite_fb = True
    check_cov("create")
    population, cand = new_population()

    seen_x, seen_f = [], []  # every evaluated candidate and its internal (minimised) fitness
    best_ref = math.inf
    n_eval = 0
    n_updates = 0
    stopped = False
    gens = plan["generations"]
    for g, gen in enumerate(gens):
        fb = gen["fb"]
        if not fb:
            continue
        internal = []
        xs = []
        for k in range(npop):
            raw = _dec(fb[k % len(fb)])
            x = np.asarray(_call(res, "get_next_parameters", C.get_next_parameters, cfg, state, population))
            if x.shape != (n,):
                res.violate("C16.b", "get_next_parameters", f"candidate of shape {x.shape}")
                raise _Abort()
            if isinstance(raw, list):
                res.probe("vector_feedback")
                feedback = jnp.asarray(np.asarray(raw, dtype=np.float32))
                total = 0.0
                for r_ in raw:  # float32 accumulation, left to right; plan values make every partial sum exact
                    total = f32(total + f32(r_))
            else:
                feedback = raw
                total = f32(raw)
            fit = -total if plan["maximize"] else total
            _call(res, "set_evaluation_feedback", C.set_evaluation_feedback, cfg, state, population, feedback)
            n_eval += 1
            xs.append(x)
            internal.append(fit)
            seen_x.append(x)
            seen_f.append(fit)
            if not math.isfinite(fit):
                all_finite_fb = False
                res.fault("nonfinite_feedback")
                res.fault("nan_feedback" if fit != fit else "inf_feedback")
            if fit == fit and fit <= best_ref:
                if fit == best_ref and math.isfinite(fit):
                    res.fault("incumbent_tie")
                best_ref = fit
            bf = float(state.best_fitness)
            bp = np.asarray(state.best_params)
            res.log.add("tell", g, k, x, raw, fit, bf, bp, int(state.it), int(state.best_fitness_it))
            res.probe("incumbent_checked")
            if not (bf == best_ref):
                res.violate("C16.b", "set_evaluation_feedback", f"generation {g} candidate {k} (internal fitness {fit!r}, maximize={plan['maximize']}): best_fitness {bf!r}, "
                            f"minimum non-NaN fitness evaluated so far {best_ref!r}")
                raise _Abort()
            attain = [i for i, f_ in enumerate(seen_f) if f_ == best_ref]
            if attain:
                ok = any(bp.shape == seen_x[i].shape and bp.tobytes() == seen_x[i].tobytes() for i in attain)
                if len(attain) < len(seen_f):
                    res.probe("incumbent_discriminating")
            else:
                ok = bp.shape == mean0.shape and bp.tobytes() == mean0.tobytes()
                res.probe("incumbent_before_first_valid")
            if not ok:
                res.violate("C16.b", "set_evaluation_feedback", f"generation {g} candidate {k}: best_params {bp.tolist()} is not a candidate that attained best_fitness {best_ref!r} "
                            f"(attained by evaluations {attain[:6]})")
                raise _Abort()
        res.simt("evaluations", npop)
        X = np.asarray(xs, dtype=np.float64)
        pf = np.asarray(population.fitness, dtype=np.float64)
        same = all((a == b) or (a != a and b != b) for a, b in zip(pf.tolist(), internal))
        if not same:
            res.violate("C16.c", "set_evaluation_feedback", f"generation {g}: stored population fitness {pf.tolist()} differs from the feedback given {internal}")
            raise _Abort()
        with warnings.catch_warnings():
            warnings.simplefilter("ignore")
            fin = bool(_call(res, "is_cmaes_finished", C.is_cmaes_finished, cfg, state, population, None))
        res.log.add("finished", g, fin)
        if fin:
            res.probe("stop_rule_fired")
            if stop["obey"]:
                stopped = True
                res.probe("stopped_like_train_cmaes")
                break
        old_mean = np.asarray(state.mean, dtype=np.float64)
        old_var = float(state.var)
        _call(res, "update_search_distribution", C.update_search_distribution, cfg, state, population)
        n_updates += 1
        res.simt("updates")
        new_mean = np.asarray(state.mean, dtype=np.float64)
        new_var = float(state.var)
        res.log.add("update", g, np.asarray(state.mean), new_var, np.asarray(state.cov), np.asarray(state.ps), np.asarray(state.pc), np.asarray(state.invsqrtC))
        site = "update_search_distribution"

        # C16.c ------------------------------------------------------------------
        finite_vals = [f_ for f_ in internal if f_ == f_]
        if len(set(finite_vals)) < len(finite_vals):
            res.fault("ties")
        if any(f_ != f_ for f_ in internal):
            res.unchecked += 1
            res.probe("mean_skipped_nan_generation")
        else:
            stable, seqs, ties_top, ties_boundary = _rank_orders(internal, mu)
            if ties_boundary:
                res.fault("ties_at_mu_boundary")
            if not all(math.isfinite(f_) for f_ in internal):
                res.probe("mean_recomputed_with_inf")

            def ref(seq):
                sel = X[list(seq)]
                return (w[:, None] * sel).sum(axis=0), 1e-5 * np.max(np.abs(sel), axis=0) + 1e-30

            def matches(seq):
                m_, tol = ref(seq)
                return bool(np.all(np.isfinite(new_mean)) and np.all(np.abs(new_mean - m_) <= tol))

            m_st, tol_st = ref(stable)
            worst_seq = tuple(sorted(range(npop), key=lambda i: -internal[i])[:mu])
            if np.any(np.abs(ref(worst_seq)[0] - m_st) > 10 * tol_st):
                res.probe("mean_discriminating")
            if matches(stable):
                res.probe("mean_recomputed")
            elif seqs is None:
                res.unchecked += 1
                res.probe("mean_ties_unresolved")
            elif any(matches(s) for s in seqs[1:]):
                res.probe("mean_recomputed")
                res.probe("mean_matched_other_tie_order")
            else:
                res.violate("C16.c", site, f"generation {g}: new mean {new_mean.tolist()} != sum_i w_i x_(i) = {m_st.tolist()} over the {mu} best of the evaluated population "
                            f"(internal fitness {internal}, ranking {list(stable)}, {len(seqs)} admissible tie orders tried, weights {w.tolist()})")
                raise _Abort()

        # C16.d ------------------------------------------------------------------
        res.probe("step_size_checked")
        ratio = new_var / old_var if old_var > 0 else math.nan
        if ratio >= 0.999 * STEP_FACTOR:
            res.probe("step_size_at_cap")
        if not (0 < ratio <= STEP_FACTOR * (1 + 1e-5)):
            res.violate("C16.d", site, f"generation {g}: variance {old_var!r} -> {new_var!r}, ratio {ratio!r} exceeds the documented exp(0.6)**2 = {STEP_FACTOR!r} (or is not positive/finite)")
            raise _Abort()

        # C16.e ------------------------------------------------------------------
        if not check_cov(f"generation {g}"):
            raise _Abort()

        population, cand = new_population()
        if not np.all(np.isfinite(cand)):
            # Cholesky of var * cov failed: covariance no longer positive definite.  Outside the property
            # (symmetric + positive variances); recorded, remaining generations cannot be simulated.
            res.probe("nonfinite_candidates_stop")
            res.unchecked += len(gens) - g - 1
            break
    res.extra["updates"] = n_updates
    covk = "none" if cov is None else ("diag" if "diag" in cov else "full")
    res.signature = (f"cmaes|n{n}|p{plan['pop']}|a{int(plan['active'])}|m{int(plan['maximize'])}|c{covk}|v{plan['variance']}|b{int(plan.get('bounds') is not None)}"
                     f"|{plan.get('style')}|g{len(gens)}|u{n_updates}|s{int(stopped)}|{','.join(sorted(res.faults))}")
    if plan["active"] and n_updates:
        res.probe("active_updates", n_updates)
    if not plan["active"] and n_updates:
        res.probe("default_updates", n_updates)
    if covk == "full" and n_updates:
        res.probe("full_initial_covariance")
    if covk == "diag" and n_updates:
        res.probe("diagonal_initial_covariance")


# --------------------------------------------------------------------------------------
# cross-entropy method


def _ulps_outside(v, lb, ub):
    """Per-dimension distance (in float32 ulps of the violated bound) by which v is outside [lb, ub]; 0 inside."""
    import numpy as np

    v32 = np.asarray(v, dtype=np.float32)
    lo = np.asarray(lb, dtype=np.float32)
    hi = np.asarray(ub, dtype=np.float32)
    out = np.zeros(v32.shape, dtype=np.float64)
    over = v32 > hi
    under = v32 < lo
    bad = ~np.isfinite(v32)
    with np.errstate(all="ignore"):
        hi_b = np.broadcast_to(hi, v32.shape)
        lo_b = np.broadcast_to(lo, v32.shape)
        out[over] = (v32[over].astype(np.float64) - hi_b[over].astype(np.float64)) / np.spacing(np.abs(hi_b[over])).astype(np.float64)
        out[under] = (lo_b[under].astype(np.float64) - v32[under].astype(np.float64)) / np.spacing(np.abs(lo_b[under])).astype(np.float64)
    out[bad] = math.inf
    return out


class _CemOracle:
    def __init__(self, plan, res):
        import numpy as np

        self.np = np
        self.plan, self.res = plan, res
        self.lb = np.asarray(plan["lb"], dtype=np.float32)
        self.ub = np.asarray(plan["ub"], dtype=np.float32)
        self.alpha = float(plan["alpha"])
        self.k = int(plan["n_elite"])
        self.npop = int(plan["n_population"])

    def fitness(self, it):
        np = self.np
        f = [float(_dec(v)) for v in it["f"]]
        f = [f[i % len(f)] for i in range(self.npop)]
        return np.asarray([f32(v) for v in f], dtype=np.float32)

    def candidates(self, t, samples, mean_prev, approx=False):
        """Every candidate within [lb, ub], tolerance 0 (precondition: the mean is inside the box).
        approx: mean_prev is a float64 recomputation of an unobservable internal mean (optimize_cem without history)."""
        np, res = self.np, self.res
        s = np.asarray(samples)
        if s.shape != (self.npop, len(self.lb)):
            res.violate("C16.g", "cem_sample", f"iteration {t}: samples of shape {s.shape}, expected {(self.npop, len(self.lb))}")
            return False
        res.probe("cem_candidates_checked", s.shape[0])
        out = _ulps_outside(s, self.lb[None], self.ub[None])
        if np.any(out > 0):
            mean_out = _ulps_outside(mean_prev, self.lb, self.ub)
            i, d = np.unravel_index(int(np.argmax(out)), out.shape)
            detail = (f"iteration {t}: candidate {int(i)} dimension {int(d)} = {float(s[i, d])!r} outside [{float(self.lb[d])!r}, {float(self.ub[d])!r}] by {float(out[i, d])} ulp "
                      f"(mean {float(np.asarray(mean_prev)[d])!r}, {float(mean_out[d])} ulp outside)")
            if approx:  # the internal float32 mean is not observable: 'outside' = the recomputed mean sits within 4 ulp of a bound
                m64 = np.asarray(mean_prev, dtype=np.float64)
                near = np.minimum(np.abs(m64 - self.lb) / np.spacing(np.abs(self.lb)), np.abs(self.ub - m64) / np.spacing(np.abs(self.ub)))
                mean_out = np.where(near <= 4, np.maximum(mean_out, 1.0), mean_out)
            res.violate("C16.g", "cem_sample", detail)
            return False
        return True

    def mean_in_box(self, t, new_mean, site):
        np, res = self.np, self.res
        out = _ulps_outside(new_mean, self.lb, self.ub)
        worst = float(np.max(out)) if out.size else 0.0
        res.probe("cem_mean_box_checked")
        if worst > 0:
            res.probe("cem_mean_one_ulp_outside" if worst <= 1 else "cem_mean_few_ulps_outside")
        if worst > 4:  # a float32 convex combination of in-box points may round a few ulps past a bound it sits on
            d = int(np.argmax(out))
            res.violate("C16.g", site, f"iteration {t}: new mean[{d}] = {float(np.asarray(new_mean)[d])!r} outside [{float(self.lb[d])!r}, {float(self.ub[d])!r}] by {worst} ulp")
            return False
        return True

    def reference(self, samples, elite, mean_prev, var_prev):
        np = self.np
        E = np.asarray(samples, dtype=np.float64)[list(elite)]
        xbar = E.mean(axis=0)
        m = self.alpha * np.asarray(mean_prev, dtype=np.float64) + (1 - self.alpha) * xbar
        dev = E - xbar
        evar = (dev ** 2).mean(axis=0)
        v = None if var_prev is None else self.alpha * np.asarray(var_prev, dtype=np.float64) + (1 - self.alpha) * evar
        amax = np.maximum(np.max(np.abs(E), axis=0), np.abs(np.asarray(mean_prev, dtype=np.float64)))
        tol_m = 1e-5 * amax + 1e-30
        em = 1e-6 * amax
        tol_v = None if v is None else 1e-4 * np.abs(v) + 4 * np.max(np.abs(dev), axis=0) * em + em ** 2 + 1e-37
        return m, tol_m, v, tol_v

    def update(self, t, samples, f, mean_prev, var_prev, new_mean, new_var, site):
        """new mean (and variance, if observable) = documented convex update from exactly the n_elite best."""
        np, res = self.np, self.res
        fl = [float(v) for v in f.tolist()]
        if len({v for v in fl if v == v}) < len([v for v in fl if v == v]):
            res.fault("ties")
        if any(v != v for v in fl):
            res.unchecked += 1
            res.probe("cem_update_skipped_nan")
            return True
        if any(math.isinf(v) for v in fl):
            res.probe("cem_update_with_inf")
        stable, sets, boundary = _elite_sets([-v for v in fl], self.k)
        if boundary:
            res.fault("ties_at_elite_boundary")
        nm = np.asarray(new_mean, dtype=np.float64)
        nv = None if new_var is None else np.asarray(new_var, dtype=np.float64)

        def matches(el):
            m, tm, v, tv = self.reference(samples, el, mean_prev, var_prev)
            ok = bool(np.all(np.isfinite(nm)) and np.all(np.abs(nm - m) <= tm))
            if ok and nv is not None:
                ok = bool(np.all(np.isfinite(nv)) and np.all(nv >= 0) and np.all(np.abs(nv - v) <= tv))
            return ok

        m_st, tm_st, v_st, _ = self.reference(samples, stable, mean_prev, var_prev)
        if self.k < self.npop and self.alpha < 1:
            anti = tuple(sorted(sorted(range(self.npop), key=lambda i: fl[i])[: self.k]))
            if np.any(np.abs(self.reference(samples, anti, mean_prev, var_prev)[0] - m_st) > 10 * tm_st):
                res.probe("cem_update_discriminating")
        if matches(stable):
            res.probe("cem_mean_recomputed")
        elif sets is None:
            res.unchecked += 1
            res.probe("cem_ties_unresolved")
        elif any(matches(s) for s in sets[1:]):
            res.probe("cem_mean_recomputed")
            res.probe("cem_matched_other_tie_set")
        else:
            res.violate("C16.g", site, f"iteration {t}: new mean {nm.tolist()}" + ("" if nv is None else f" / variance {nv.tolist()}") +
                        f" != alpha*old + (1-alpha)*statistics of the {self.k} best of {self.npop} candidates: expected mean {m_st.tolist()}"
                        + ("" if v_st is None else f" variance {v_st.tolist()}") + f" (alpha {self.alpha}, fitness {fl}, elite {list(stable)}, {len(sets)} admissible elite sets tried)")
            return False
        return True


def _run_cem(plan, res):
    import jax
    import jax.numpy as jnp
    import numpy as np
    from rl_blox.blox import cross_entropy_method as X

    orc = _CemOracle(plan, res)
    lb, ub = jnp.asarray(orc.lb), jnp.asarray(orc.ub)
    mean0 = np.asarray(plan["mean0"], dtype=np.float32)
    var0 = np.asarray(plan["var0"], dtype=np.float32)
    iters = plan["iters"]
    mode = plan["mode"]
    d = len(orc.lb)
    if np.any(mean0 < orc.lb) or np.any(mean0 > orc.ub) or np.any(orc.lb >= orc.ub) or np.any(var0 < 0):
        raise HarnessError("plan violates the CEM precondition (mean inside a non-empty box, variance >= 0)")
    on_bound = int(np.sum((mean0 == orc.lb) | (mean0 == orc.ub)))
    if on_bound:
        res.fault("mean_on_bound", on_bound)
    n_done = 0

    if mode == "bad_elite":
        calls = []

        def probe_fn(samples):
            calls.append(1)
            return jnp.zeros(samples.shape[0])

        res.fault("elite_exceeds_population")
        try:
            X.optimize_cem(probe_fn, jnp.asarray(mean0), jnp.asarray(var0), jax.random.key(int(plan["key"])), max(1, len(iters)), orc.npop, orc.k, lb, ub,
                           epsilon=float(plan["epsilon"]), alpha=orc.alpha, return_history=bool(plan["history"]))
        except ValueError as e:
            if not raised_by_code_under_test(e):
                raise
            res.log.add("bad_elite", "ValueError", len(calls))
            if calls:
                res.violate("C16.g", "optimize_cem", f"n_elite {orc.k} > n_population {orc.npop}: raised only after evaluating {len(calls)} populations: {e}")
            else:
                res.probe("bad_elite_rejected")
        except Exception as e:  # noqa: BLE001
            if not raised_by_code_under_test(e):
                raise
            res.violate("C16.g", "optimize_cem", f"n_elite {orc.k} > n_population {orc.npop}: {type(e).__name__} instead of the documented ValueError: {str(e)[:200]}")
        else:
            res.violate("C16.g", "optimize_cem", f"n_elite {orc.k} > n_population {orc.npop} was accepted")

    elif mode == "direct":
        mean, var = mean0, var0
        for t, it in enumerate(iters):
            key = jax.random.key(int(it["seed"]))
            samples = _call(res, "cem_sample", X.cem_sample, jnp.asarray(mean), jnp.asarray(var), key, orc.npop, lb, ub)
            s = np.asarray(samples)
            res.log.add("cem_sample", t, mean, var, s)
            if not orc.candidates(t, s, mean):
                break
            f = orc.fitness(it)
            if not np.all(np.isfinite(f)):
                res.fault("nonfinite_feedback")
            nm, nv = _call(res, "cem_update", X.cem_update, samples, jnp.asarray(f), jnp.asarray(mean), jnp.asarray(var), orc.k, orc.alpha)
            nm, nv = np.asarray(nm), np.asarray(nv)
            res.log.add("cem_update", t, f, nm, nv)
            n_done += 1
            if nm.shape != (d,) or nv.shape != (d,):
                res.violate("C16.g", "cem_update", f"iteration {t}: shapes {nm.shape} {nv.shape}")
                break
            if not orc.update(t, s, f, mean, var, nm, nv, "cem_update"):
                break
            if not orc.mean_in_box(t, nm, "cem_update"):
                break
            # precondition of the next cem_sample call: mean inside the box (a 1-ulp excursion is put back)
            clamped = np.minimum(np.maximum(nm, orc.lb), orc.ub)
            if not np.array_equal(clamped, nm):
                res.probe("cem_mean_put_back")
            mean, var = clamped, nv
            on = int(np.sum((mean == orc.lb) | (mean == orc.ub)))
            if on:
                res.fault("mean_on_bound", on)

    elif mode == "optimize":
        calls = []

        def probe_fn(samples):
            t = len(calls)
            calls.append(np.asarray(samples))
            if t >= len(iters):
                raise HarnessError("optimize_cem evaluated more populations than n_iter")
            return jnp.asarray(orc.fitness(iters[t]))

        if not iters:
            res.signature = f"cem|{mode}|empty"
            return
        history = bool(plan["history"])
        eps = float(plan["epsilon"])
        try:
            out = X.optimize_cem(probe_fn, jnp.asarray(mean0), jnp.asarray(var0), jax.random.key(int(plan["key"])), len(iters), orc.npop, orc.k, lb, ub,
                                 epsilon=eps, alpha=orc.alpha, return_history=history)
        except HarnessError:
            raise
        except Exception as e:  # noqa: BLE001
            if not raised_by_code_under_test(e):
                raise
            if history and not calls and float(np.max(var0)) <= eps:
                res.fault("zero_iterations_with_history")
                res.violate("C16.raise.empty_history", "optimize_cem", f"return_history=True and no iteration performed (max initial variance {float(np.max(var0))!r} <= epsilon {eps!r}): "
                            f"{type(e).__name__}: {str(e)[:200]}")
            else:
                res.violate("C16.raise", "optimize_cem", f"{type(e).__name__}: {str(e)[:300]}")
            res.log.add("raise", "optimize_cem", type(e).__name__, len(calls))
            raise _Abort() from None
        n_done = len(calls)
        if history:
            sol, path, hist = (np.asarray(o) for o in out)
        else:
            sol, path, hist = np.asarray(out), None, None
        res.log.add("optimize_cem", n_done, sol, path, hist)
        if n_done < len(iters):
            res.probe("cem_stopped_on_small_variance")
        if n_done == 0:
            res.probe("cem_zero_iterations")
        if sol.shape != (d,):
            res.violate("C16.g", "optimize_cem", f"solution of shape {sol.shape}")
            raise _Abort()
        if history:
            if path.shape != (n_done, d) or hist.shape != (n_done * orc.npop, d):
                res.violate("C16.g", "optimize_cem", f"history shapes {path.shape} {hist.shape} after {n_done} iterations of {orc.npop} candidates")
                raise _Abort()
            if n_done and hist.tobytes() != np.vstack(calls).tobytes():
                res.violate("C16.g", "optimize_cem", "sample history differs from the candidates handed to the fitness function")
                raise _Abort()
            if n_done and sol.tobytes() != path[-1].tobytes():
                res.violate("C16.g", "optimize_cem", f"solution {sol.tolist()} is not the last mean of the path {path[-1].tolist()}")
                raise _Abort()
            res.probe("cem_history_checked")
        mean_prev = mean0
        chain_ok = True
        for t in range(n_done):
            s = calls[t]
            res.log.add("cem_iter", t, s, orc.fitness(iters[t]))
            if not orc.candidates(t, s, mean_prev, approx=not history):
                break
            f = orc.fitness(iters[t])
            if not np.all(np.isfinite(f)):
                res.fault("nonfinite_feedback")
            if history:
                if not orc.update(t, s, f, mean_prev, None, path[t], None, "optimize_cem"):
                    break
                if not orc.mean_in_box(t, path[t], "optimize_cem"):
                    break
                mean_prev = path[t]
            else:
                # without history only the final mean is observable: follow the stable elite choice in float64
                fl = [float(v) for v in f.tolist()]
                if any(v != v for v in fl):
                    chain_ok = False
                    mean_prev = np.clip(mean_prev, orc.lb, orc.ub)
                    continue
                stable, sets, boundary = _elite_sets([-v for v in fl], orc.k)
                if boundary:
                    chain_ok = False
                    res.fault("ties_at_elite_boundary")
                m, _, _, _ = orc.reference(s, stable, mean_prev, None)
                mean_prev = m
        else:
            if not history:
                orc.mean_in_box(n_done, sol, "optimize_cem")
                if n_done == 0:
                    if sol.tobytes() != mean0.tobytes():
                        res.violate("C16.g", "optimize_cem", "no iteration performed but the solution is not the initial mean")
                elif chain_ok:
                    tol = 1e-5 * (n_done + 1) * np.maximum(np.max(np.abs(np.vstack(calls)), axis=0), np.abs(mean0)) + 1e-30
                    if np.all(np.abs(sol.astype(np.float64) - mean_prev) <= tol):
                        res.probe("cem_mean_recomputed")
                    else:
                        res.violate("C16.g", "optimize_cem", f"solution {sol.tolist()} != mean recomputed from the {orc.k} best candidates of each of the {n_done} populations {np.asarray(mean_prev).tolist()}")
                else:
                    res.unchecked += 1
                    res.probe("cem_chain_unresolved")
    else:
        raise HarnessError(f"unknown CEM mode {mode}")
    res.simt("cem_iterations", n_done)
    res.signature = (f"cem|{mode}|d{d}|p{orc.npop}|e{orc.k}|a{orc.alpha}|{plan.get('box_style')}|{plan.get('var_style')}|{plan.get('style')}"
                     f"|h{int(bool(plan.get('history')))}|eps{plan.get('epsilon')}|i{len(iters)}|n{n_done}|{','.join(sorted(res.faults))}")


# --------------------------------------------------------------------------------------
# train_cmaes on a scripted environment


def _run_train(plan, res):
    import gymnasium as gym
    import jax.numpy as jnp
    import numpy as np
    from flax import nnx
    from rl_blox.algorithm import cmaes as C
    from rl_blox.blox.function_approximator.mlp import MLP
    from rl_blox.blox.function_approximator.policy_head import DeterministicTanhPolicy

    site = "train_cmaes"
    episodes = plan["episodes"]
    nf = int(plan["n_features"])

    class ScriptEnv(gym.Env):
        """Episode lengths and rewards come from the plan; dynamics ignore the action; observations are a fixed function of (episode, step)."""

        def __init__(self):
            self.observation_space = gym.spaces.Box(-1.0, 1.0, (nf,), np.float32)
            self.action_space = gym.spaces.Box(-1.0, 1.0, (1,), np.float32)
            self.ep, self.t = -1, 0
            self.params, self.actions = [], []

        def _obs(self):
            return np.asarray([(((self.ep + 1) * 7 + self.t * 3 + c) % 11) / 11.0 - 0.5 for c in range(nf)], dtype=np.float32)

        def reset(self, *, seed=None, options=None):
            self.ep += 1
            self.t = 0
            return self._obs(), {}

        def step(self, action):
            if self.ep >= len(episodes):
                raise HarnessError("train_cmaes ran more episodes than total_episodes")
            e = episodes[self.ep]
            if self.t == 0:
                self.params.append(np.asarray(C.flat_params(policy)))
            self.actions.append(np.asarray(action, dtype=np.float32).copy())
            r = float(_dec(e["rew"][self.t % len(e["rew"])]))
            self.t += 1
            done = self.t >= int(e["len"])
            return self._obs(), r, done, False, {}

    net = MLP(nf, 1, list(plan["hidden"]), plan["activation"], nnx.Rngs(int(plan["net_seed"])))
    env = ScriptEnv()
    policy = DeterministicTanhPolicy(net, env.action_space)
    init = np.asarray(C.flat_params(policy))
    n = len(init)
    cov = None if plan["cov"] is None else jnp.asarray(np.asarray(plan["cov"][:n] + [1.0] * max(0, n - len(plan["cov"])), dtype=np.float32))
    with warnings.catch_warnings():
        warnings.simplefilter("ignore")
        out = _call(res, site, C.train_cmaes, env, policy, len(episodes), seed=int(plan["seed"]), variance=float(plan["variance"]), covariance=cov,
                    n_samples_per_update=plan["pop"], active=bool(plan["active"]), logger=None, progress_bar=False)
    pol_out, best, stopped = out
    final = np.asarray(C.flat_params(pol_out))
    E = len(env.params)
    res.simt("train_episodes", E)
    res.probe("train_runs")
    res.log.add("train", E, float(best), bool(stopped), final, env.params, env.actions)

    # scripted returns as train_cmaes accumulates them (Python float sum; plan values keep it float32-exact)
    rets = []
    for e in episodes[:E]:
        tot = 0.0
        for t in range(int(e["len"])):
            tot += float(_dec(e["rew"][t % len(e["rew"])]))
        rets.append(f32(tot))
    nonfinite = [not math.isfinite(r) for r in rets]
    if any(nonfinite):
        res.fault("nonfinite_feedback", sum(nonfinite))
    valid = [r for r in rets if r == r]
    best_ref = max(valid) if valid else -math.inf
    res.probe("train_best_checked")
    if not (float(best) == best_ref):
        res.violate("C16.b", site, f"returned best_fitness {float(best)!r}, maximum scripted return over the {E} evaluated episodes {best_ref!r} (returns {rets})")
        return
    if not stopped and E != len(episodes):
        res.violate("C16.b", site, f"not stopped but only {E} of {len(episodes)} episodes were evaluated")
        return
    if stopped:
        res.probe("train_stopped")

    cfg = _call(res, "CMAESConfig.create", C.CMAESConfig.create, active=bool(plan["active"]), bounds=None, maximize=True, min_variance=None, min_fitness_dist=0.0,
                max_condition=None, n_params=n, n_samples_per_update=plan["pop"])
    if not _check_weights(res, cfg, f"n_params={n} population={plan['pop']}"):
        return
    npop, mu = int(cfg.n_samples_per_update), int(cfg.mu)
    w = np.asarray(cfg.weights, dtype=np.float64)
    G = E // npop
    last = G - 1 if stopped else G  # number of search-distribution updates performed
    res.simt("updates", max(last, 0))
    if stopped and E % npop != 0:
        res.violate("C16.c", site, f"stopped after {E} episodes, not at a population boundary ({npop})")
        return
    if last <= 0:
        if final.tobytes() != init.tobytes():
            res.violate("C16.c", site, f"no update was performed but the returned policy {final.tolist()} differs from the initial parameters {init.tolist()}")
        else:
            res.probe("train_no_update")
    else:
        xs = np.asarray(env.params[(last - 1) * npop: last * npop], dtype=np.float64)
        fit = [-r for r in rets[(last - 1) * npop: last * npop]]
        if any(f_ != f_ for f_ in fit):
            res.unchecked += 1
            res.probe("mean_skipped_nan_generation")
        else:
            stable, seqs, _, boundary = _rank_orders(fit, mu)
            if boundary:
                res.fault("ties_at_mu_boundary")
            fm = final.astype(np.float64)

            def matches(seq):
                sel = xs[list(seq)]
                return bool(np.all(np.abs(fm - (w[:, None] * sel).sum(axis=0)) <= 1e-5 * np.max(np.abs(sel), axis=0) + 1e-30))

            if matches(stable) or (seqs is not None and any(matches(s_) for s_ in seqs[1:])):
                res.probe("train_final_mean_recomputed")
            elif seqs is None:
                res.unchecked += 1
                res.probe("mean_ties_unresolved")
            else:
                res.violate("C16.c", site, f"returned policy parameters {final.tolist()} != weighted mean of the {mu} best candidates of the last updated population "
                            f"(episodes {(last - 1) * npop}..{last * npop - 1}, internal fitness {fit}, ranking {list(stable)})")
    res.signature = f"train|n{n}|p{plan['pop']}|a{int(plan['active'])}|v{plan['variance']}|{plan.get('style')}|e{len(episodes)}|E{E}|s{int(bool(stopped))}|{','.join(sorted(res.faults))}"


# --------------------------------------------------------------------------------------


def execute(plan):
    res = Result()
    res.log.add("plan", plan["kind"])
    try:
        if plan["kind"] == "cmaes":
            _run_cmaes(plan, res)
        elif plan["kind"] == "cem":
            _run_cem(plan, res)
        elif plan["kind"] == "train":
            _run_train(plan, res)
        else:
            raise HarnessError(f"unknown plan kind {plan['kind']}")
    except _Abort:
        res.log.add("abort")
    if not res.signature:
        res.signature = f"{plan['kind']}|aborted|{','.join(sorted(c for c, _ in res.classes()))}"
    return res


# --------------------------------------------------------------------------------------
# plan generation (pure functions of the random.Random handed in)

_SPECIALS = ["inf", "-inf", "nan"]


def _fit_values(rng, m, style, counter):
    """m fitness values (float32-exact) of the given style; counter = evaluations before this batch."""
    if style == "distinct":
        return [v / 4.0 for v in rng.sample(range(-400, 400), m)]
    if style == "ties":
        pool = rng.sample([-2.0, -1.0, 0.0, 0.5, 1.0, 3.0], rng.choice([1, 2, 2, 3]))
        return [rng.choice(pool) for _ in range(m)]
    if style == "huge":
        return [f32(rng.choice([-1.0, 1.0]) * 1e12 * rng.choice([1.0, 1.0, 2.0, 3.0, 0.5, 7.25])) for _ in range(m)]
    if style == "constant":
        return [rng.choice([-3.0, 0.0, 1.0, 1e12])] * m
    if style == "rising":
        return [float(counter + i) for i in range(m)]
    if style == "falling":
        return [float(-(counter + i)) for i in range(m)]
    if style == "adjacent":  # neighbouring float32 numbers: distinct, but only just
        return [f32(1.0 + rng.randrange(0, 6) * 2.0 ** -23) for _ in range(m)]
    raise ValueError(style)


def _with_faults(rng, vals, p_fault, vector):
    out = []
    for v in vals:
        if p_fault and rng.random() < p_fault:
            out.append(rng.choice(_SPECIALS))
        elif vector and abs(v) <= 1000 and v * 2 == int(v * 2) and rng.random() < 0.5:
            out.append([v - 1.0, 0.5, 0.5])  # per-step rewards; every partial float32 sum is exact
        else:
            out.append(v)
    return out


_DEFAULT_POP = {n: 4 + int(3 * math.log(n)) for n in range(1, 9)}
_STYLES = ["distinct", "distinct", "ties", "ties", "huge", "constant", "rising", "falling", "adjacent", "mixed"]


def _net_spec(rng):
    n_features = rng.choice([1, 2, 3])
    n_outputs = rng.choice([1, 2])
    hidden = [rng.choice([1, 2, 3, 4]) for _ in range(rng.choice([0, 1, 2]))]
    sizes = [n_features] + hidden + [n_outputs]
    n_params = sum(a * b + b for a, b in zip(sizes[:-1], sizes[1:]))
    return {"n_features": n_features, "n_outputs": n_outputs, "hidden": hidden, "activation": rng.choice(["tanh", "relu"]), "seed": rng.randrange(1000),
            "wrap": rng.random() < 0.5, "x": [f32(rng.gauss(0.0, 1.0) * rng.choice([1.0, 1.0, 1e-3, 1e3])) for _ in range(n_params)]}


def make_cmaes_plan(rng, index, tier):
    r = index % 16  # a 16-worker shard sees one dimension and at most two population sizes (jit compiles are per shape)
    n = r % 8 + 1
    pop = rng.choice([None, 4] if r < 8 else [None, 9])
    npop = pop or _DEFAULT_POP[n]
    covk = rng.choice(["none", "none", "diag", "full"])
    if covk == "none":
        cov = None
    elif covk == "diag":
        cov = {"diag": [rng.choice([1e-3, 0.25, 1.0, 4.0, 1e3]) for _ in range(n)]}
    else:
        A = [[rng.choice([-1.0, 0.0, 0.0, 1.0, 0.5]) for _ in range(n)] for _ in range(n)]
        s = rng.choice([0.25, 1.0, 16.0])
        cov = {"full": [[s * (sum(A[i][k] * A[j][k] for k in range(n)) + (0.5 if i == j else 0.0)) for j in range(n)] for i in range(n)]}
    mstyle = rng.choice(["zero", "unit", "large", "random"])
    mean0 = [f32(rng.uniform(-2, 2)) if mstyle == "random" else {"zero": 0.0, "unit": 1.0, "large": 1e3}[mstyle] for _ in range(n)]
    bounds = None
    if rng.random() < 0.2:
        half = rng.choice([0.5, 2.0, 10.0])
        bounds = [[f32(m - half), f32(m + half)] for m in mean0]
    style = rng.choice(_STYLES)
    p_fault = rng.choice([0.0, 0.0, 0.0, 0.04, 0.25])
    vector = rng.random() < 0.15
    n_gen = rng.randint(3, 15 if tier != "quick" else 10)
    gens = []
    counter = 0
    for _ in range(n_gen):
        st = style if style != "mixed" else rng.choice(_STYLES[:-1])
        gens.append({"fb": _with_faults(rng, _fit_values(rng, npop, st, counter), p_fault, vector)})
        counter += npop
    strict = rng.random() < 0.3  # the stop rules exactly as train_cmaes configures and obeys them
    stop = {"min_variance": 2 * (2.0 ** -23) ** 2 if strict else None, "min_fitness_dist": 2 * 2.0 ** -23 if strict else 0.0,
            "max_condition": 1e7 if strict else None, "obey": strict or rng.random() < 0.2}
    extra = [[rng.choice([1, 2, 3, 5, 8, 20, 100, 1000]), rng.choice([None, 2, 3, 4, 5, 6, 7, 8, 9, 10, 12, 16, 20, 32, 64])] for _ in range(rng.choice([0, 1, 2]))]
    return {"kind": "cmaes", "n": n, "pop": pop, "active": rng.random() < 0.5, "maximize": rng.random() < 0.7,
            "variance": rng.choice([1e-12, 1e-6, 0.01, 0.3, 1.0, 1.0, 100.0, 1e6]), "cov": cov, "mean0": mean0, "bounds": bounds, "stop": stop,
            "key": rng.randrange(2 ** 31), "style": style, "generations": gens, "net": _net_spec(rng) if rng.random() < 0.4 else None, "extra_configs": extra}


_CEM_SHAPES = [  # (dimension, [(n_population, n_elite), ...]) by index % 16
    (1, [(4, 1), (4, 4)]), (2, [(4, 2), (8, 3)]), (3, [(8, 1), (8, 3)]), (5, [(8, 8), (16, 4)]),
    (1, [(16, 8), (5, 2)]), (2, [(5, 5), (32, 5)]), (3, [(16, 4), (4, 3)]), (5, [(4, 2), (9, 4)]),
    (1, [(8, 3), (2, 1)]), (2, [(16, 8), (3, 2)]), (3, [(5, 2), (32, 16)]), (5, [(5, 1), (8, 3)]),
    (4, [(8, 2), (4, 1)]), (6, [(8, 4), (16, 2)]), (2, [(9, 4), (6, 6)]), (3, [(6, 3), (10, 1)]),
]


def _box(rng, style):
    if style == "mixed":
        style = rng.choice(["symmetric", "asymmetric", "tiny", "large", "offset"])
    if style == "symmetric":
        return -1.0, 1.0
    if style == "asymmetric":
        return f32(-0.3), 2.5
    if style == "tiny":
        c = rng.choice([0.0, 1.0, -5.0])
        return c, f32(c + 1e-3)
    if style == "large":
        return -1e3, 1e3
    if style == "offset":
        return 10.0, 11.0
    raise ValueError(style)


def make_cem_plan(rng, index, tier):
    d, shapes = _CEM_SHAPES[index % 16]
    n_pop, n_elite = rng.choice(shapes)
    box_style = rng.choice(["symmetric", "asymmetric", "tiny", "large", "offset", "mixed", "mixed"])
    lbs, ubs, mean0 = [], [], []
    mean_style = rng.choice(["inside", "inside", "some_on_bound", "all_on_bound"])
    for _ in range(d):
        lo, hi = _box(rng, box_style)
        lbs.append(lo)
        ubs.append(hi)
        u = rng.choice([0.5, rng.random(), rng.random()])
        if mean_style == "all_on_bound" or (mean_style == "some_on_bound" and rng.random() < 0.5):
            u = rng.choice([0.0, 1.0])
        mean0.append(min(max(f32(lo + u * (hi - lo)), lo), hi) if u not in (0.0, 1.0) else (lo if u == 0.0 else hi))
    var_style = rng.choice(["tiny", "small", "unit", "huge", "mixed", "mixed"])
    pick = {"tiny": [1e-12, 1e-8], "small": [1e-4, 0.01], "unit": [0.25, 1.0], "huge": [1e6, 1e12], "mixed": [1e-12, 1e-4, 0.01, 1.0, 1e6, 1e12]}[var_style]
    var0 = [f32(rng.choice(pick)) for _ in range(d)]
    style = rng.choice(_STYLES)
    p_fault = rng.choice([0.0, 0.0, 0.0, 0.05, 0.25])
    n_it = rng.randint(1, 8)
    iters = []
    counter = 0
    for _ in range(n_it):
        st = style if style != "mixed" else rng.choice(_STYLES[:-1])
        iters.append({"seed": rng.randrange(2 ** 31), "f": _with_faults(rng, _fit_values(rng, n_pop, st, counter), p_fault, False)})
        counter += n_pop
    mode = rng.choice(["direct", "direct", "optimize", "optimize", "optimize", "bad_elite"]) if rng.random() < 0.5 else rng.choice(["direct", "optimize"])
    if mode == "bad_elite":
        n_elite = n_pop + rng.choice([1, 1, 2, 10])
    epsilon = rng.choice([0.0, 1e-9, 1e-3, 1e-3])
    history = rng.random() < 0.7
    if not GENERATE_ZERO_ITERATION_HISTORY and max(var0) <= epsilon:
        history = False
    return {"kind": "cem", "mode": mode, "lb": lbs, "ub": ubs, "mean0": mean0, "var0": var0, "n_population": n_pop, "n_elite": n_elite,
            "alpha": rng.choice([0.0, 0.1, 0.25, 0.25, 0.5, 0.9, 1.0]), "epsilon": epsilon, "history": history,
            "key": rng.randrange(2 ** 31), "box_style": box_style, "var_style": var_style, "mean_style": mean_style, "style": style, "iters": iters}


def make_train_plan(rng, index, tier):
    nf, hidden = [(1, []), (2, []), (1, [1]), (1, []), (2, [])][index % 5]
    sizes = [nf] + hidden + [1]
    n = sum(a * b + b for a, b in zip(sizes[:-1], sizes[1:]))
    pop = rng.choice([None, 4])
    npop = pop or 4 + int(3 * math.log(n))
    style = rng.choice(["distinct", "distinct", "ties", "huge", "rising", "falling", "constant"])
    p_fault = rng.choice([0.0, 0.0, 0.05, 0.2])
    n_ep = rng.choice([npop - 1, npop, 2 * npop, 2 * npop + 1, 3 * npop, 4 * npop, 4 * npop - 1])
    eps = []
    vals = []
    while len(vals) < n_ep:
        vals += _fit_values(rng, npop, style, len(vals))
    for v in vals[:n_ep]:
        L = rng.choice([1, 1, 2, 3])
        if p_fault and rng.random() < p_fault:
            rew = [0.0] * (L - 1) + [rng.choice(_SPECIALS)]
        elif L > 1 and abs(v) <= 1000:
            rew = [v - 0.5 * (L - 1)] + [0.5] * (L - 1)
        else:
            rew = [v] + [0.0] * (L - 1)
        eps.append({"len": L, "rew": rew})
    return {"kind": "train", "n_features": nf, "hidden": hidden, "activation": rng.choice(["tanh", "relu"]), "net_seed": rng.randrange(1000), "seed": rng.randrange(2 ** 31),
            "variance": rng.choice([0.01, 0.3, 1.0, 100.0]), "cov": rng.choice([None, None, [rng.choice([0.25, 1.0, 4.0]) for _ in range(n)]]), "pop": pop,
            "active": rng.random() < 0.5, "style": style, "episodes": eps}


def make_plan(rng, tier, index):
    if index % 20 == 19:
        return make_train_plan(rng, index // 20, tier)
    if rng.random() < 0.55:
        return make_cmaes_plan(rng, index, tier)
    return make_cem_plan(rng, index, tier)
