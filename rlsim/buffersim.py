"""BufferSim: the real replay-buffer classes driven by planned operation
histories, with the generator behind a seam, against list/dict reference models.

Serves C02 (FIFO), C04 (sub-trajectories), C08 (prioritised law + bookkeeping),
C19 (pickle restart twins).  Which oracle clauses are evaluated is decided by
plan["clauses"].

Values written into the buffers are unique self-describing tags:
    value(tid, field, comp) = tid*64 + field*8 + comp      (exact in float32)
field codes: observation 1, action 2, reward 3, next_observation 4, extra 5.
tid starts at 1, so zero / never-written memory never decodes to a valid tag.
"""
from __future__ import annotations

import os
import pickle
import tempfile

import numpy as np

from .core import Result, raised_by_code_under_test
from .stubgen import StubGenerator

F_OBS, F_ACT, F_REW, F_NOBS = 1, 2, 3, 4
API_ERRORS = (AttributeError, TypeError, NameError, ImportError)


def tag(tid, field, dim):
    base = tid * 64 + field * 8
    if dim == 0:
        return float(base)
    return np.asarray([base + c for c in range(dim)], dtype=float)


def decode(v):
    """-> (tid, field) if every component of v is a consistent tag, else None."""
    a = np.asarray(v, dtype=np.float64).reshape(-1)
    if a.size == 0 or not np.all(np.isfinite(a)):
        return None
    if np.any(a != np.floor(a)) or np.any(a < 64) or np.any(a >= 2**24):
        return None
    i = a.astype(np.int64)
    tid = i // 64
    field = (i % 64) // 8
    comp = i % 8
    if np.any(tid != tid[0]) or np.any(field != field[0]) or np.any(comp != np.arange(a.size)):
        return None
    return int(tid[0]), int(field[0])


class RefTask:
    """Reference for one task: everything ever added, in order."""

    def __init__(self, capacity):
        self.N = capacity
        self.order = []  # tids in add order
        self.maxp = 1.0
        self.last_batch = None  # tids of the most recent batch (starts)
        self.slots_upper = 0  # upper bound on ring slots consumed (sub buffers)
        self.adds_since_sample = 0

    def retained(self):
        return self.order[-self.N:] if self.N > 0 else []


class Sim:
    """One real buffer (optionally multi-task-wrapped) + its generator."""

    def __init__(self, plan):
        from rl_blox.blox import replay_buffer as rb

        self.rb = rb
        cls = getattr(rb, plan["cls"])
        kw = {}
        if plan.get("discrete"):
            kw["discrete_actions"] = True
        if plan.get("dtype") == "f32":
            if plan["family"] == "flat":
                kw["dtypes"] = [np.float32, np.int32 if plan.get("discrete") else np.float32, np.float32, np.float32, np.int8]
                kw["keys"] = ["observation", "action", "reward", "next_observation", "termination"]
            else:
                kw["dtypes"] = [np.float32, np.int32 if plan.get("discrete") else np.float32, np.float32, np.float32, np.int8, np.int8]
                kw["keys"] = ["observation", "action", "reward", "next_observation", "terminated", "truncated"]
            kw.pop("discrete_actions", None)
        if plan["family"] == "sub":
            buf = cls(plan["capacity"], horizon=plan["horizon"], **kw)
        else:
            buf = cls(plan["capacity"], **kw)
        if plan["n_tasks"] > 0:
            buf = rb.MultiTaskReplayBuffer(buf, plan["n_tasks"])
        self.buf = buf
        if plan["gen"] == "stub":
            self.gen = StubGenerator()
        else:
            self.gen = np.random.default_rng(plan["gen_seed"])

    def restart(self, scratch, reload=True):
        path = os.path.join(scratch, "buf.pkl")
        with open(path, "wb") as f:
            pickle.dump(self.buf, f)
        if reload:
            self.buf = None
            with open(path, "rb") as f:
                self.buf = pickle.load(f)
        os.remove(path)


def _np(x):
    return np.asarray(x)


class BufferRun:
    def __init__(self, plan):
        self.plan = plan
        self.res = Result()
        self.cl = set(plan["clauses"])
        self.prop = plan["check"]
        self.site = plan["cls"] + ("/MT" if plan["n_tasks"] > 0 else "")
        self.family = plan["family"]
        self.prio = plan["cls"] in ("LAP", "PrioritizedReplayBuffer", "SubtrajectoryReplayBufferPER")
        self.weights = plan["cls"] == "PrioritizedReplayBuffer"
        self.stub = plan["gen"] == "stub"
        self.N = plan["capacity"]
        self.H = plan.get("horizon", 1)
        self.sims = [Sim(plan)]
        if plan.get("twin"):
            self.sims.append(Sim(plan))
        nt = max(1, plan["n_tasks"])
        self.tasks = [RefTask(self.N) for _ in range(nt)]
        self.sel = 0
        self.rows = {}  # tid -> dict
        self.next_tid = 1
        self.ep_id = 1
        self.ep_t = [0] * nt
        self.ep_of_task = [None] * nt
        self.last_task = None
        self.restarted = False
        self.stopped = False

    # ------------------------------------------------------------ utilities
    def V(self, clause, detail):
        self.res.violate(f"{self.prop}.{clause}", self.site, detail)

    def call(self, clause, name, *a, **k):
        """Call method `name` on every sim; returns list of results or None if
        the code under test raised (recorded as violation `clause`)."""
        outs, excs = [], []
        for i, s in enumerate(self.sims):
            kk = dict(k)
            if "rng" in kk:
                kk["rng"] = s.gen
            try:
                outs.append(getattr(s.buf, name)(*a, **kk))
                excs.append(None)
            except Exception as e:  # the code under test failed an operation whose precondition holds
                if not raised_by_code_under_test(e):
                    raise
                outs.append(None)
                excs.append(e)
        if any(e is not None for e in excs):
            if "twin" in self.cl and len({type(e).__name__ if e is not None else "" for e in excs}) > 1:
                self.res.violate("C19.a", self.site, f"{name}: original and reloaded twin disagree on raising: {[repr(e) for e in excs]}")
                self.stopped = True
                return None
            e = [x for x in excs if x is not None][0]
            if (name == "sample_batch" and self.family == "sub" and isinstance(e, ValueError)
                    and ("high" in str(e) or "No valid entry" in str(e))):
                # no admissible start: the uniform variant asks the generator for integers(0, 0), the prioritised
                # variant refuses explicitly; either way nothing invalid is handed out (vacuous)
                self.res.log.add("sample-skip-no-admissible-start")
                self.res.probe("no_admissible_start")
                self.last_task = None  # a refused sample leaves no "most recently sampled batch" to update
                return None
            self.V(clause, f"{name} raised {type(e).__name__}: {e}")
            self.stopped = True
            return None
        if len(outs) == 2 and "twin" in self.cl:
            if not _same(outs[0], outs[1]):
                self.res.violate("C19.a", self.site, f"{name}: reloaded twin returned a different result than the never-serialised original")
        return outs

    def set_stub(self, **kw):
        for s in self.sims:
            if self.stub:
                for k, v in kw.items():
                    setattr(s.gen, k, v)

    def gen0(self):
        return self.sims[0].gen

    # ------------------------------------------------------------ operations
    def op_add(self, kind):
        p = self.plan
        t = self.tasks[self.sel]
        tid = self.next_tid
        self.next_tid += 1
        term = 1 if kind in (1, 3) else 0
        trunc = 1 if kind in (2, 3) else 0
        if self.ep_of_task[self.sel] is None:
            self.ep_of_task[self.sel] = self.ep_id
            self.ep_id += 1
            self.ep_t[self.sel] = 0
        row = {
            "tid": tid,
            "task": self.sel,
            "ep": self.ep_of_task[self.sel],
            "t": self.ep_t[self.sel],
            "term": term,
            "trunc": trunc,
            "prio": t.maxp,
        }
        self.ep_t[self.sel] += 1
        if term or trunc:
            self.ep_of_task[self.sel] = None
            if row["t"] == 0:
                self.res.fault("one_step_episode")
            if self.family == "sub" and row["t"] + 1 < self.H:
                self.res.fault("episode_shorter_than_horizon")
            if term and trunc:
                self.res.fault("term+trunc")
        self.rows[tid] = row
        od, ad = p["obs_dim"], p["act_dim"]
        action = tag(tid, F_ACT, ad)
        if p.get("discrete"):
            action = np.asarray(action).astype(np.int64) if ad else int(action)
        sample = dict(
            observation=tag(tid, F_OBS, od),
            action=action,
            reward=tag(tid, F_REW, 0),
            next_observation=tag(tid, F_NOBS, od),
        )
        if self.family == "sub":
            sample["terminated"] = term
            sample["truncated"] = trunc
        else:
            sample["termination"] = term
        out = self.call("add", "add_sample", **sample)
        if out is None:
            return
        t.order.append(tid)
        t.adds_since_sample += 1
        t.slots_upper += 1 + (1 if (term or trunc) else 0)
        n = len(t.order)
        if n == self.N:
            self.res.fault("exact_fill")
        if n == self.N + 1:
            self.res.fault("first_wrap")
        if n == 2 * self.N + 1 and self.N > 1:
            self.res.fault("multi_lap")
        if self.family == "sub" and trunc and t.slots_upper > self.N and t.slots_upper - 2 <= self.N + self.H:
            self.res.fault("trunc_right_after_wrap")
        self.res.simt("adds")
        self.res.log.add("add", tid, kind, self.sel)

    def op_select(self, k):
        nt = len(self.tasks)
        if self.plan["n_tasks"] == 0:
            return
        valid = 0 <= k < nt
        raised = []
        for s in self.sims:
            try:
                s.buf.select_task(k)
                raised.append(False)
            except ValueError:
                raised.append(True)
        if valid and any(raised):
            self.V("task", f"select_task({k}) raised for a valid id (n_tasks={nt})")
        if not valid:
            self.res.fault("invalid_task_id")
            if not all(raised):
                self.V("task", f"select_task({k}) accepted an invalid id (n_tasks={nt})")
        if valid:
            self.sel = k
        self.res.log.add("select", k, valid)

    def expected_len(self):
        return sum(min(len(t.order), self.N) for t in self.tasks)

    def op_len(self):
        outs = []
        for s in self.sims:
            outs.append(len(s.buf))
        if "len" in self.cl and self.family == "flat":
            if outs[0] != self.expected_len():
                self.V("len", f"len={outs[0]} but min(n,N) summed over tasks = {self.expected_len()} (N={self.N}, adds per task={[len(t.order) for t in self.tasks]})")
        if len(outs) == 2 and outs[0] != outs[1] and "twin" in self.cl:
            self.res.violate("C19.a", self.site, f"len differs after reload: {outs}")
        if len(self.sims) == 2 and "twin" in self.cl and self.family == "sub":
            # further public observables of the sub-trajectory buffers
            for attr in ("environment_terminates",):
                va = [getattr(sm.buf, attr, None) for sm in self.sims]
                if va[0] != va[1]:
                    self.res.violate("C19.a", self.site, f"{attr} differs after reload: original {va[0]}, reloaded {va[1]}")
            if outs[0] > 0:
                try:
                    rs = [float(sm.buf.reward_scale()) for sm in self.sims]
                    if rs[0] != rs[1]:
                        self.res.violate("C19.a", self.site, f"reward_scale() differs after reload: {rs}")
                except Exception:
                    pass
        self.res.log.add("len", outs[0])

    def active_tasks(self):
        return [i for i, t in enumerate(self.tasks) if t.order]

    def op_restart(self):
        scratch = self.scratch
        for i, s in enumerate(self.sims):
            # sim 0 is "the original having been saved", the last sim is reloaded
            reload = (i == len(self.sims) - 1)
            try:
                s.restart(scratch, reload=reload)
            except Exception as e:
                self.res.violate("C19.a", self.site, f"pickle round trip raised {type(e).__name__}: {e}")
                self.stopped = True
                return
        self.restarted = True
        n = max(len(t.order) for t in self.tasks)
        if n == 0:
            self.res.fault("restart_empty")
        elif n > self.N:
            self.res.fault("restart_wrapped")
        elif n == self.N:
            self.res.fault("restart_exactly_full")
        else:
            self.res.fault("restart_partial")
        if any(e is not None for e in self.ep_of_task):
            self.res.fault("restart_mid_episode")
        if self.prio and len({self.rows[t_]["prio"] for t in self.tasks for t_ in t.retained()}) > 1:
            self.res.fault("restart_nonuniform_priorities")
        self.res.log.add("restart")

    # ---- sampling
    def _sample_call(self, B, h, inter, beta):
        """One sample_batch call on every sim. Returns decoded batch of sim 0:
        (fields dict of numpy arrays, weights or None) or None."""
        args = [B]
        kw = {}
        if self.family == "sub":
            args += [h, bool(inter)]
        if self.weights and beta is not None:
            kw["beta"] = beta
        out = self.call("sample", "sample_batch", *args, rng=None, **kw)
        if out is None:
            return None
        o = out[0]
        w = None
        if self.weights:
            o, w = o
            w = _np(w)
        fields = {k: _np(getattr(o, k)) for k in o._fields}
        self.res.simt("sample_calls")
        self.res.log.add("sample", B, h, inter, fields, w)
        return fields, w

    def sampled_task(self):
        if self.plan["n_tasks"] == 0:
            return 0
        if self.stub:
            return int(self.gen0().last_choice)
        return None  # real generator: decided from the rows

    def check_flat_rows(self, fields, task):
        """C02.c/d: every row is one retained transition with all fields from
        the same transition.  Returns list of tids (None for bad rows)."""
        B = fields["reward"].shape[0]
        tids = []
        for b in range(B):
            do = decode(fields["observation"][b])
            da = decode(fields["action"][b])
            dr = decode(fields["reward"][b])
            dn = decode(fields["next_observation"][b])
            ds = [do, da, dr, dn]
            if any(d is None for d in ds) or [d[1] for d in ds] != [F_OBS, F_ACT, F_REW, F_NOBS]:
                self.V("written", f"row {b} does not decode to a written transition (never-written or corrupted slot): obs={fields['observation'][b]!r} act={fields['action'][b]!r} rew={fields['reward'][b]!r}")
                tids.append(None)
                continue
            if len({d[0] for d in ds}) != 1:
                self.V("fields", f"row {b} mixes fields of different transitions: ids obs/act/rew/next={[d[0] for d in ds]}")
                tids.append(None)
                continue
            tid = do[0]
            r = self.rows.get(tid)
            if r is None:
                self.V("written", f"row {b} carries id {tid} that was never added")
                tids.append(None)
                continue
            if task is None:
                task = r["task"]
            if r["task"] != task:
                self.V("task", f"row {b} (id {tid}) belongs to task {r['task']} but the batch was drawn for task {task}")
                tids.append(None)
                continue
            if tid not in self.tasks[task].retained():
                self.V("stale", f"row {b} is transition {tid}, which was overwritten (retained ids {self.tasks[task].retained()[:3]}..{self.tasks[task].retained()[-1:]})")
                tids.append(None)
                continue
            if int(fields["termination"][b]) != r["term"]:
                self.V("fields", f"row {b} (id {tid}) termination flag {int(fields['termination'][b])} != stored {r['term']}")
            tids.append(tid)
        return tids, task

    def check_weights(self, w, tids, beta):
        if w is None or "weights" not in self.cl:
            return
        if any(t is None for t in tids):
            return
        if not np.all(np.isfinite(w)) or np.any(w <= 0) or np.any(w > 1 + 1e-6):
            self.V("weights", f"importance weights outside (0,1]: {w}")
            return
        if abs(float(np.max(w)) - 1.0) > 1e-6:
            self.V("weights", f"max importance weight {np.max(w)} != 1")
        p = np.asarray([self.rows[t]["prio"] for t in tids], dtype=float)
        if beta == 0 and np.any(np.abs(w - 1) > 1e-6):
            self.V("weights", f"beta=0 but weights {w}")
        for i in range(len(tids)):
            for j in range(len(tids)):
                if p[i] > p[j] and w[i] > w[j] * (1 + 1e-6):
                    self.V("weights", f"weights increase with priority: p={p[i]},{p[j]} w={w[i]},{w[j]}")
                    return
        ref = (p / p.min()) ** (-beta)
        ref = ref / ref.max()
        if np.any(np.abs(np.log(np.maximum(w, 1e-300)) - np.log(np.maximum(ref, 1e-300))) > 1e-4):
            self.V("weights", f"weights {w} != (N p / sum p)^-beta / max = {ref} for priorities {p}, beta={beta}")
        self.res.probe("weights_checked")

    def op_sample(self, B, units, pick, h, inter, beta):
        act = self.active_tasks()
        if not act:
            self.res.log.add("sample-skip-empty")
            return
        if self.family == "sub":
            return self.op_sample_sub(B, units, pick, h, inter)
        self.set_stub(mode="unit", unit=units, choice_pick=pick)
        r = self._sample_call(B, h, inter, beta)
        if r is None:
            return
        fields, w = r
        task = self.sampled_task()
        if task is not None and not self.tasks[task].order:
            self.V("task", f"batch drawn from task {task}, which has no data")
            return
        if B > min(len(self.tasks[t].order) for t in act):
            self.res.fault("batch_gt_len")
        if fields["reward"].shape[0] != B:
            self.V("fields", f"batch of {fields['reward'].shape[0]} rows for batch_size={B}")
        tids, task = self.check_flat_rows(fields, task)
        if task is not None:
            self.tasks[task].last_batch = tids
            self.tasks[task].adds_since_sample = 0
            self.last_task = task
        self.check_weights(w, tids, beta)
        if self.restarted:
            self.res.probe("sample_after_restart")

    def op_enum(self, B, h, inter):
        """Exhaustive enumeration of the valid slots / admissible starts through
        the generator seam (stub only)."""
        if not self.stub:
            return
        act = self.active_tasks()
        if self.family == "sub":
            return self.op_enum_sub(B, h, inter)
        for pick, task in enumerate(act if self.plan["n_tasks"] > 0 else [0]):
            if not self.tasks[task].order:
                continue
            if self.prio:
                if self._law(B, pick, mult=4) is None:
                    return
            else:
                seen = []
                high = None
                off = 0
                n_calls = 0
                while True:
                    self.set_stub(mode="offset", offset=off, choice_pick=pick)
                    r = self._sample_call(B, h, inter, None)
                    if r is None:
                        return
                    n_calls += 1
                    g = self.gen0()
                    st = self.sampled_task()
                    if self.plan["n_tasks"] > 0 and st != task:
                        # the wrapper listed active tasks in a different order; find by identity
                        self.res.log.add("enum-task-mismatch", st, task)
                    tids, _ = self.check_flat_rows(r[0], st)
                    self.tasks[st].last_batch = tids
                    self.tasks[st].adds_since_sample = 0
                    self.last_task = st
                    high = g.last_high
                    seen += tids[: max(0, min(B, high - off))]
                    off += B
                    if off >= high or n_calls > 64:
                        break
                tk = self.sampled_task()
                ret = self.tasks[tk].retained()
                if high != len(ret):
                    self.V("len", f"sampling range is {high} but min(n,N)={len(ret)} (task {tk})")
                if None not in seen and sorted(seen) != sorted(ret):
                    self.V("membership", f"rows obtainable by sampling {sorted(seen)} != most recent min(n,N) transitions {sorted(ret)} (task {tk}, N={self.N})")
                self.res.probe("enumerations")

    def _law(self, B, pick, mult):
        """Grid sweep of the uniform variates: counts per transition must match
        G*p/S within +-2 for any inverse-CDF implementation. Returns tids list."""
        n_calls = max(4, int(np.ceil(mult * 4 * self.N / B)))
        G = n_calls * B
        counts = {}
        allt = []
        task = None
        for c in range(n_calls):
            self.set_stub(mode="grid", grid=(c, n_calls), choice_pick=pick)
            r = self._sample_call(B, None, None, 0.5)
            if r is None:
                return None
            st = self.sampled_task()
            if task is None:
                task = st
            tids, _ = self.check_flat_rows(r[0], st)
            self.check_weights(r[1], tids, 0.5)
            self.tasks[st].last_batch = tids
            self.tasks[st].adds_since_sample = 0
            self.last_task = st
            for t in tids:
                if t is None:
                    return None
                counts[t] = counts.get(t, 0) + 1
                allt.append(t)
        ret = self.tasks[task].retained()
        if "membership" in self.cl and "law" not in self.cl:
            S = sum(self.rows[t]["prio"] for t in ret)
            for t in ret:
                if G * self.rows[t]["prio"] / S >= 3 and t not in counts:
                    self.V("membership", f"retained transition {t} (task {task}) is never returned by {G} equidistant variates although its share is {self.rows[t]['prio'] / S:.3g}")
                    break
            self.res.probe("enumerations")
        if "law" in self.cl:
            p = {t: self.rows[t]["prio"] for t in ret}
            S = sum(p.values())
            for t in ret:
                exp = G * p[t] / S
                if abs(counts.get(t, 0) - exp) > 2 + 1e-9 * G:
                    self.V("law", f"transition {t}: drawn {counts.get(t, 0)} of {G} equidistant variates, expected {exp:.2f}±2 for priority {p[t]} of total {S} (priorities {[p[x] for x in ret]})")
                    break
            self.res.probe("law_sweeps")
            if max(p.values()) / min(p.values()) >= 1e6:
                self.res.fault("priorities_huge_vs_tiny")
            if len(set(p.values())) == 1 and len(p) > 1:
                self.res.fault("priorities_all_equal")
            if len(self.tasks[task].order) > self.N and len(set(p.values())) > 1:
                self.res.fault("law_after_wrap_stale_priorities")
        return allt

    def op_law(self, B, mult):
        if not (self.stub and self.prio):
            return
        if self.family == "sub":
            return self.op_law_sub(B, mult)
        act = self.active_tasks()
        for pick, task in enumerate(act if self.plan["n_tasks"] > 0 else [0]):
            if self.tasks[task].order:
                if self._law(B, pick, mult) is None:
                    return

    def op_update(self, values):
        if not self.prio:
            return
        task = self.last_task
        if task is None or self.tasks[task].last_batch is None:
            self.res.log.add("update-skip-no-batch")
            return
        t = self.tasks[task]
        tids = t.last_batch
        if any(x is None for x in tids):
            return
        # Interpretation (DESIGN §4 C08): the batch must still be stored. If a sampled
        # transition was overwritten between sample and update, "the transitions of
        # the most recently sampled batch" no longer exist and the update is not generated.
        if self.family == "flat":
            stale = any(x not in t.retained() for x in tids)
        else:
            stale = t.adds_since_sample > 0
        if stale:
            self.res.log.add("update-skip-stale-batch")
            self.res.probe("update_skipped_stale_batch")
            return
        vals = np.asarray([values[x % len(values)] for x in tids], dtype=float)
        out = self.call("update", "update_priority", vals)
        if out is None:
            return
        for x, v in zip(tids, vals):
            self.rows[x]["prio"] = float(v)
        t.maxp = max(t.maxp, float(vals.max()))
        if self.restarted:
            self.res.fault("update_after_restart")
        self.res.probe("priority_updates")
        self.res.log.add("update", tids, vals)

    def op_reset_max(self):
        if not self.prio:
            return
        if self.family == "sub" and any(t.slots_upper > self.N for t in self.tasks):
            self.res.log.add("reset_max-skip-ambiguous")
            return
        out = self.call("maxprio", "reset_max_priority")
        if out is None:
            return
        for t in self.tasks:
            ret = t.retained() if self.family == "flat" else t.order
            if ret:
                t.maxp = max(self.rows[x]["prio"] for x in ret)
        self.res.probe("reset_max")
        self.res.log.add("reset_max")

    # ------------------------------------------------------------ sub-trajectory buffers
    def decode_subrow(self, f, b, j):
        """Row j of window b in the full (intermediate) view -> ('D'|'S', tid) or None."""
        do = decode(f["observation"][b, j])
        da = decode(f["action"][b, j])
        dn = decode(f["next_observation"][b, j])
        rew = float(f["reward"][b, j])
        if do is None or da is None or dn is None or da[1] != F_ACT or dn[1] != F_NOBS:
            return None
        if not (do[0] == da[0] == dn[0]) or do[0] not in self.rows:
            return None
        if do[1] == F_OBS:
            dr = decode(rew)
            if dr is None or dr != (do[0], F_REW):
                return None
            return "D", do[0]
        if do[1] == F_NOBS and rew == 0.0:
            return "S", do[0]
        return None

    def check_window(self, f, b, h, task):
        """C04.a-d for one window of the full view. Returns start tid or None."""
        term = f["terminated"][b].astype(int)
        trunc = f["truncated"][b].astype(int)
        k = h - 1
        for j in range(h):
            if term[j]:
                k = j
                break
        prev = None
        start = None
        for j in range(h):
            d = self.decode_subrow(f, b, j)
            if d is None:
                self.V("written", f"window {b} row {j} is not a stored row (never-written or mixed slot): obs={f['observation'][b, j]!r} act={f['action'][b, j]!r} rew={f['reward'][b, j]!r}")
                return None
            if j > k:
                continue
            kind, tid = d
            r = self.rows[tid]
            if kind != "D":
                self.V("window", f"window {b} row {j} (before/at first terminated step {k}) is the successor pseudo-row of transition {tid}, not a transition")
                return None
            if task is not None and r["task"] != task:
                self.V("task", f"window {b} row {j} belongs to task {r['task']}, batch drawn for task {task}")
                return None
            if int(term[j]) != r["term"] or int(trunc[j]) != r["trunc"]:
                self.V("window", f"window {b} row {j} (id {tid}) flags term/trunc={int(term[j])}/{int(trunc[j])} != stored {r['term']}/{r['trunc']}")
                return None
            if r["trunc"]:
                self.V("trunc", f"window {b} contains truncated step id {tid} at row {j} (first terminated row {k if term[k] else None})")
                return None
            if prev is not None:
                pr = self.rows[prev]
                if r["ep"] != pr["ep"] or r["t"] != pr["t"] + 1 or tid != prev + 1 and self.plan["n_tasks"] == 0:
                    self.V("window", f"window {b} rows {j - 1},{j}: ids {prev}->{tid}, episode {pr['ep']}->{r['ep']}, step {pr['t']}->{r['t']}: not a contiguous run of one episode (crossed an episode end, the write position or overwritten data)")
                    return None
            else:
                start = tid
            prev = tid
        if not term[k]:
            if np.any(trunc):
                self.V("trunc", f"window {b} has no terminated step but contains a truncated one")
                return None
        return start

    def _sub_pair(self, B, h, task_pick):
        """Sample the same starts with and without intermediates (stub state is
        identical for both calls); check windows and the reduced view."""
        g = self.gen0()
        full = self._sample_call(B, h, True, None)
        if full is None:
            return None
        st = self.sampled_task()
        red = self._sample_call(B, h, False, None)
        if red is None:
            return None
        f, r = full[0], red[0]
        nB = f["reward"].shape[0]
        starts = []
        for b in range(nB):
            s = self.check_window(f, b, h, st)
            starts.append(s)
        # C04.e reduced view
        try:
            ok = (
                np.array_equal(r["observation"], f["observation"][:, 0])
                and np.array_equal(r["action"], f["action"][:, 0])
                and np.array_equal(r["next_observation"], f["next_observation"][:, -1])
                and np.array_equal(r["reward"], f["reward"])
                and np.array_equal(r["terminated"], f["terminated"])
                and np.array_equal(r["truncated"], f["truncated"])
            )
        except Exception:
            ok = False
        if not ok:
            self.V("reduced", f"reduced view differs from the full view of the same windows (h={h}): obs {r['observation'].shape} vs {f['observation'].shape}")
        if st is not None:
            self.tasks[st].last_batch = starts
            self.tasks[st].adds_since_sample = 0
            self.last_task = st
        self.res.probe("windows_checked", nB)
        return starts, st

    def op_sample_sub(self, B, units, pick, h, inter):
        if not self._can_sample_sub():
            self.res.log.add("sample-skip-no-certain-start")
            return
        self.set_stub(mode="unit", unit=units, choice_pick=pick)
        if self.stub:
            self._sub_pair(B, h, pick)
        else:
            r = self._sample_call(B, h, True, None)
            if r is None:
                return
            f = r[0]
            starts = [self.check_window(f, b, h, None) for b in range(f["reward"].shape[0])]
            tk = None
            for s in starts:
                if s is not None:
                    tk = self.rows[s]["task"]
            if tk is not None:
                self.tasks[tk].last_batch = starts
                self.tasks[tk].adds_since_sample = 0
                self.last_task = tk
            self.res.probe("windows_checked", len(starts))

    def _permitted_starts(self, task, h):
        """Reference: starts whose window of length h is a valid sample."""
        t = self.tasks[task]
        out = []
        idx = {x: i for i, x in enumerate(t.order)}
        for x in t.order:
            ok = True
            cur = x
            for j in range(h):
                r = self.rows.get(cur)
                if r is None or r["task"] != task or r["trunc"]:
                    ok = False
                    break
                if r["term"]:
                    break
                if j < h - 1:
                    i = idx[cur] + 1
                    if i >= len(t.order) or self.rows[t.order[i]]["ep"] != r["ep"]:
                        ok = False
                        break
                    cur = t.order[i]
            if ok:
                out.append(x)
        return out

    def _certain_starts(self, task):
        """Starts that any implementation following the documented enabling rule
        has enabled and that are certainly still stored (the last N//2 adds
        occupy at most N ring slots)."""
        t = self.tasks[task]
        recent = t.order[-max(0, self.N // 2):] if self.N >= 2 else []
        idx = {x: i for i, x in enumerate(t.order)}
        out = []
        for x in recent:
            r = self.rows[x]
            ep = [y for y in t.order[idx[x]:] if self.rows[y]["ep"] == r["ep"]]
            last = self.rows[ep[-1]]
            ended = last["term"] or last["trunc"]
            if last["trunc"] and len(ep) <= self.H:
                continue  # within the masked tail of a truncated episode
            if len(ep) > self.H or (ended and last["term"] and not last["trunc"]):
                out.append(x)
        return out

    def _can_sample_sub(self):
        if not self.active_tasks():
            return False
        return True  # an empty admissible set surfaces as a ValueError (both variants) and is skipped

    def op_enum_sub(self, B, h, inter):
        if not self._can_sample_sub():
            self.res.log.add("enum-skip-no-start")
            return
        act = self.active_tasks() if self.plan["n_tasks"] > 0 else [0]
        for pick, task in enumerate(act):
            if self.prio:
                if self._law_sub(B, h, pick, mult=3) is None:
                    return
                continue
            off, high, n_calls = 0, None, 0
            seen = []
            while True:
                self.set_stub(mode="offset", offset=off, choice_pick=pick)
                r = self._sub_pair(B, h, pick)
                if r is None:
                    return
                n_calls += 2
                high = self.gen0().last_high
                seen += r[0][: max(0, min(B, high - off))]
                off += B
                if off >= high or n_calls > 128:
                    break
            st = r[1]
            self.res.probe("start_enumerations")
            self.res.probe("admissible_starts", high)
            if None not in seen:
                perm = self._permitted_starts(st, h)
                self.res.probe("reference_valid_windows", len([x for x in perm if x in self.tasks[st].order[-self.N:]]))
                if len(set(seen)) != len(seen):
                    self.V("window", f"two admissible starts return the same window: {sorted(seen)}")

    def _law_sub(self, B, h, pick, mult):
        """Prioritised sub-trajectory buffer: grid sweep; all windows checked;
        law relative to the observed support."""
        # number of retained candidate starts is at most N
        n_calls = max(4, int(np.ceil(mult * 4 * self.N / B)))
        G = n_calls * B
        counts = {}
        st = None
        for c in range(n_calls):
            self.set_stub(mode="grid", grid=(c, n_calls), choice_pick=pick)
            r = self._sub_pair(B, h, pick)
            if r is None:
                return None
            st = r[1]
            for s in r[0]:
                if s is None:
                    return None
                counts[s] = counts.get(s, 0) + 1
        if "law" in self.cl and counts:
            p = {s: self.rows[s]["prio"] for s in counts}
            S = sum(p.values())
            # only decidable if no admissible start can hide below the grid resolution
            allp = [self.rows[x]["prio"] for x in self.tasks[st].order[-self.N:]]
            if min(allp) / (sum(allp)) * G >= 4:
                if h == self.H:
                    for x in self._certain_starts(st):
                        if x not in counts:
                            self.V("law", f"start {x} is admissible by the documented enabling rule and has priority {self.rows[x]['prio']} (share >= {min(allp) / sum(allp):.3g}) but is never drawn by {G} equidistant variates (drawn starts {sorted(counts)})")
                            return counts
                for s in counts:
                    exp = G * p[s] / S
                    if abs(counts[s] - exp) > 2 + 1e-9 * G:
                        self.V("law", f"start {s}: drawn {counts[s]} of {G} equidistant variates, expected {exp:.2f}±2 (priority {p[s]}, support priorities {p})")
                        break
                self.res.probe("law_sweeps")
            else:
                self.res.unchecked += 1
        self.res.probe("start_enumerations")
        return counts

    def op_law_sub(self, B, mult):
        if not self._can_sample_sub():
            return
        act = self.active_tasks() if self.plan["n_tasks"] > 0 else [0]
        for pick, task in enumerate(act):
            if self._law_sub(B, self.H, pick, mult) is None:
                return

    # ------------------------------------------------------------ main loop
    def run(self):
        p = self.plan
        self.scratch = tempfile.mkdtemp(prefix="rlsim_buf_", dir=os.environ.get("VERIF_SCRATCH"))
        try:
            if self.N == 1:
                self.res.fault("capacity_1")
            for op in p["ops"]:
                if self.stopped or len(self.res.violations) >= 5:
                    break
                k = op[0]
                if k == "add":
                    self.op_add(op[1])
                elif k == "select":
                    self.op_select(op[1])
                elif k == "len":
                    self.op_len()
                elif k == "sample":
                    self.op_sample(op[1], op[2], op[3], min(op[4], self.H), op[5], op[6])
                elif k == "enum":
                    self.op_enum(op[1], min(op[2], self.H), op[3])
                elif k == "law":
                    self.op_law(op[1], op[2])
                elif k == "update":
                    self.op_update(op[1])
                elif k == "reset_max":
                    self.op_reset_max()
                elif k == "restart":
                    self.op_restart()
                self.res.simt("ops")
                if k in ("add", "restart") and "len" in self.cl:
                    self.op_len()
        finally:
            try:
                os.rmdir(self.scratch)
            except OSError:
                import shutil

                shutil.rmtree(self.scratch, ignore_errors=True)
        nmax = max(len(t.order) for t in self.tasks)
        fill = "empty" if nmax == 0 else "partial" if nmax < self.N else "full" if nmax == self.N else "wrapped"
        kinds = sorted({o[0] for o in p["ops"]})
        self.res.signature = "|".join(
            str(x) for x in (p["cls"], p["n_tasks"], self.N, self.H, p["obs_dim"], p["act_dim"], p["gen"], fill, nmax // max(self.N, 1), ",".join(kinds), ",".join(sorted(self.res.faults)))
        )
        return self.res


def _same(a, b):
    """Bitwise equality of two sample_batch / len / None results."""
    if a is None or b is None:
        return a is b
    if isinstance(a, tuple) and hasattr(a, "_fields"):
        return all(_same(x, y) for x, y in zip(a, b))
    if isinstance(a, (tuple, list)):
        return len(a) == len(b) and all(_same(x, y) for x, y in zip(a, b))
    xa, xb = np.asarray(a), np.asarray(b)
    return xa.shape == xb.shape and xa.dtype == xb.dtype and xa.tobytes() == xb.tobytes()


def execute(plan):
    return BufferRun(plan).run()


# ---------------------------------------------------------------- plan generation helpers

PRIO_SETS = [
    [1.0, 1.0, 1.0],
    [0.5, 1.0, 2.0, 3.0],
    [1e-3, 1.0, 1e3],
    [1e-12, 1e12, 1.0],
    [2.0, 2.0, 7.0, 0.25],
    [10.0, 0.1],
]


def gen_ops(rng, family, prio, n_tasks, capacity, horizon, n_ops, weights):
    """Swarm-style operation list: first draw which kinds are enabled."""
    ops = []
    enabled = {"add": True, "sample": rng.random() < 0.9, "enum": rng.random() < 0.8,
               "law": prio and rng.random() < 0.8, "update": prio and rng.random() < 0.85,
               "reset_max": prio and rng.random() < 0.5, "select": n_tasks > 0,
               "len": rng.random() < 0.5, "restart": rng.random() < 0.5}
    ep_style = rng.choice(["long", "short", "one_step", "mixed", "never_ends"])
    term_w = {"long": 0.08, "short": 0.35, "one_step": 0.9, "mixed": 0.2, "never_ends": 0.0}[ep_style]
    trunc_share = rng.choice([0.0, 0.3, 0.5, 1.0])
    target_adds = rng.choice([capacity - 1, capacity, capacity + 1, 2 * capacity + 1, rng.randint(1, 3 * capacity + 2)])
    adds = 0
    while len(ops) < n_ops:
        r = rng.random()
        if r < 0.55 or adds < min(2, target_adds):
            burst = rng.choice([1, 1, 2, 3, capacity])
            for _ in range(burst):
                kind = 0
                if rng.random() < term_w:
                    if family == "sub":
                        x = rng.random()
                        kind = 2 if x < trunc_share * 0.8 else 3 if x < trunc_share else 1
                    else:
                        kind = 1
                ops.append(["add", kind])
                adds += 1
        elif r < 0.65 and enabled["sample"]:
            B = rng.choice([1, 2, 3, 4, 8])
            units = [rng.choice([rng.random(), 1e-9, 1 - 1e-9, 0.5]) for _ in range(B)]
            units = [min(max(u, 1e-12), 1 - 1e-12) for u in units]
            ops.append(["sample", B, units, rng.randint(0, 3), rng.randint(1, horizon), rng.random() < 0.5,
                        rng.choice([0.0, 0.4, 1.0]) if weights else None])
        elif r < 0.75 and enabled["enum"]:
            ops.append(["enum", rng.choice([1, 2, 3, 5, 8]), rng.randint(1, horizon), rng.random() < 0.5])
        elif r < 0.80 and enabled["law"]:
            ops.append(["law", rng.choice([1, 2, 4, 8]), rng.choice([2, 4])])
        elif r < 0.88 and enabled["update"]:
            if rng.random() < 0.75:
                B = rng.choice([1, 2, 3, 4, 8])
                units = [min(max(rng.random(), 1e-12), 1 - 1e-12) for _ in range(B)]
                ops.append(["sample", B, units, rng.randint(0, 3), rng.randint(1, horizon), True,
                            rng.choice([0.0, 0.4, 1.0]) if weights else None])
            ops.append(["update", rng.choice(PRIO_SETS)])
        elif r < 0.90 and enabled["reset_max"]:
            ops.append(["reset_max"])
        elif r < 0.95 and enabled["select"]:
            ops.append(["select", rng.choice(list(range(n_tasks)) * 4 + [-1, n_tasks])])
        elif r < 0.97 and enabled["len"]:
            ops.append(["len"])
        elif enabled["restart"]:
            ops.append(["restart"])
    # always finish with observations so that late corruption is seen
    if prio:
        ops.append(["law", rng.choice([2, 4]), 2])
    ops.append(["enum", rng.choice([1, 3, 4]), horizon, True])
    ops.append(["len"])
    return ops
