"""SchedulerSim: multi-task schedulers (train_smt, train_active_mt, train_uts), task
selectors (RoundRobinSelector, DUCBGeneralized, mapb.DUCB) and the rollout helper,
against step-accounting and bandit reference models.  Serves C11.f / C11.g / C11.c.
"""
from __future__ import annotations

import math
from collections import namedtuple
from functools import partial

import numpy as np

from .core import Result, raised_by_code_under_test
from .simenv import SimAbort, SimEnv, make_script
from .tabsim import SimTabEnv

# ----------------------------------------------------------------------------
# selectors


class DucbRef:
    """Discounted UCB over a sliding window, float64, written from the documented formulas."""

    def __init__(self, n_arms, upper_bound, gamma, zeta, window=250):
        self.n, self.B, self.g, self.z, self.W = n_arms, upper_bound, gamma, zeta, window
        self.hist = []  # (arm, reward) of rewarded plays

    def scores(self):
        t = len(self.hist)
        N = np.zeros(self.n)
        X = np.zeros(self.n)
        for s in range(max(0, t - self.W), t):
            a, r = self.hist[s]
            w = self.g ** (t - 1 - s)
            N[a] += w
            X[a] += w * r
        with np.errstate(all="ignore"):
            mean = X / N
            pad = 2 * self.B * np.sqrt(self.z * np.log(N.sum()) / N)
        return mean + pad, N


def exec_selector(plan):
    from rl_blox.blox import mapb, multitask

    res = Result()
    kind = plan["selector"]
    if kind == "named":
        kind = ["1-step Progress", "Monotonic Progress", "Best Reward", "Diversity"][plan["named_index"] % 4]
    n = plan["n_tasks"]
    site = kind
    tasks = np.asarray(plan.get("tasks") or list(range(n)))
    B, g, z = plan["upper_bound"], plan["gamma"], plan["zeta"]
    ref = None
    if kind == "RoundRobin":
        sel = multitask.RoundRobinSelector(tasks)
    elif kind == "DUCB":
        sel = mapb.DUCB(n, B, g, z)
        ref = DucbRef(n, B, g, z)
    else:
        from rl_blox.algorithm.active_mt import TASK_SELECTORS

        cls, kw = TASK_SELECTORS[kind]
        sel = cls(tasks=tasks, upper_bound=B, ducb_gamma=g, zeta=z, **kw)
        ref = DucbRef(n, B, g, z)
        base, op, hg = kw.get("baseline"), kw.get("op"), kw.get("heuristic_gamma")
        last = [[] for _ in range(n)]
    waiting = False
    chosen = None
    played = []
    for i, op_ in enumerate(plan["ops"]):
        try:
            if op_[0] == "select":
                if kind == "DUCB":
                    if waiting:
                        continue  # mapb.DUCB documents no protocol; keep strict alternation
                    a = int(sel.choose_arm())
                else:
                    if waiting:
                        res.fault("select_twice")
                        try:
                            sel.select()
                            res.violate("C11.g", site, f"op {i}: second select() without feedback was accepted")
                            return res
                        except AssertionError:
                            res.probe("protocol_misuse_rejected")
                            break  # the property promises nothing about the selector's state after a rejected misuse
                    a = int(sel.select())
                    if a not in tasks.tolist():
                        res.violate("C11.g", site, f"op {i}: selected task id {a} is not one of the selector's tasks {tasks.tolist()}")
                        return res
                    a = tasks.tolist().index(a)
                    if list(tasks) != list(range(n)):
                        res.fault("non_identity_task_ids")
                if not (0 <= a < n):
                    res.violate("C11.g", site, f"op {i}: selected task id {a} outside 0..{n - 1}")
                    return res
                res.probe("selections")
                # bandit law
                if ref is not None:
                    t = len(ref.hist)
                    if t < 2 * n:
                        if a != t % n:
                            res.violate("C11.g", site, f"op {i}: initial round {t}: played arm {a}, every arm must be played in turn (expected {t % n})")
                            return res
                        res.probe("initial_rounds")
                    else:
                        sc, N = ref.scores()
                        if np.all(np.isfinite(sc)):
                            if sc[a] < np.max(sc) - 1e-9 * (1 + abs(np.max(sc))):
                                res.violate("C11.g", site, f"op {i}: played arm {a} with discounted mean + bonus {sc[a]:.6g}, but arm {int(np.argmax(sc))} has {np.max(sc):.6g} (scores {np.round(sc, 6).tolist()})")
                                return res
                            res.probe("ucb_argmax_checked")
                            if np.sum(sc >= np.max(sc) - 1e-9) > 1:
                                res.fault("score_tie")
                        else:
                            res.unchecked += 1
                chosen = a
                waiting = True
                played.append(a)
            else:
                r = float(op_[1])
                if not waiting:
                    if kind == "DUCB":
                        continue
                    res.fault("feedback_without_select")
                    try:
                        sel.feedback(r)
                        res.violate("C11.g", site, f"op {i}: feedback() without a pending selection was accepted")
                        return res
                    except AssertionError:
                        res.probe("protocol_misuse_rejected")
                        break
                if kind == "DUCB":
                    sel.reward(r)
                    ref.hist.append((chosen, r))
                elif kind == "RoundRobin":
                    sel.feedback(r)
                else:
                    sel.feedback(r)
                    lr = last[chosen][::-1]
                    if lr:
                        if base == "max":
                            b = max(lr)
                        elif base == "avg":
                            b = float(np.mean(lr))
                        elif base == "davg":
                            b = float(np.sum(np.asarray(lr) * hg ** np.arange(1, len(lr) + 1)) * (1.0 / hg - 1.0))
                        elif base == "last":
                            b = lr[0]
                        else:
                            b = 0.0
                        ir = r - b
                        if op == "max-with-0":
                            ir = max(0.0, ir)
                        elif op == "abs":
                            ir = abs(ir)
                        elif op == "neg":
                            ir = -ir
                        ref.hist.append((chosen, ir))
                    last[chosen].append(r)
                waiting = False
        except AssertionError:
            raise
        except Exception as e:
            if not raised_by_code_under_test(e):
                raise
            res.violate("C11.g", site, f"op {i} {op_}: {type(e).__name__}: {e}")
            return res
        res.simt("ops")
    res.log.add("played", played)
    if kind == "RoundRobin" and len(played) >= n:
        if len(set(played[:n])) != n:
            res.violate("C11.g", site, f"round robin did not visit every task in {n} selections: {played[:n]}")
    res.signature = f"{kind}|{n}|{g}|{z}|{len(plan['ops'])}|{','.join(sorted(res.faults))}"
    return res


# ----------------------------------------------------------------------------
# schedulers


class StubTrainST:
    """Contract-faithful single-task trainer: runs until total_timesteps or total_episodes,
    stores every transition, returns a faithful global_step."""

    def __init__(self):
        self.calls = []

    def __call__(self, env, learning_starts=0, total_timesteps=0, total_episodes=None, replay_buffer=None, seed=0,
                 logger=None, global_step=0, progress_bar=False, bar=None, **kw):
        step = global_step
        episodes = 0
        executed = 0
        obs, _ = env.reset(seed=seed)
        while step < total_timesteps:
            a = env.action_space.sample()
            nobs, r, term, trunc, info = env.step(a)
            executed += 1
            if replay_buffer is not None:
                replay_buffer.add_sample(observation=obs, action=a, reward=r, next_observation=nobs, termination=term)
            step += 1
            if term or trunc:
                episodes += 1
                if total_episodes is not None and episodes >= total_episodes:
                    break
                obs, _ = env.reset()
            else:
                obs = nobs
        if len(self.calls) > 4 * max(int(total_timesteps), 1) + 50:
            raise SimAbort("the scheduler keeps calling train_st without making progress")
        self.calls.append({"start": global_step, "executed": executed, "total": total_timesteps, "episodes": total_episodes, "seed": int(seed)})
        return namedtuple("StubResult", ["global_step"])(step)


def exec_scheduler(plan):
    from rl_blox.blox.multitask import DiscreteTaskSet
    from rl_blox.blox.replay_buffer import MultiTaskReplayBuffer, ReplayBuffer

    res = Result()
    algo = plan["scheduler"]
    site = "train_" + algo
    n = plan["n_tasks"]
    env = SimEnv(**plan["env"])

    def set_context(e, context):
        e.unwrapped.context = float(np.asarray(context).reshape(-1)[0])

    contexts = np.arange(n, dtype=np.float32)[:, np.newaxis] + 1.0
    # finite observation bounds are needed for the contextual observation space
    import gymnasium as gym

    env.observation_space = gym.spaces.Box(-1e6, 1e6, (env.obs_dim,), np.float32)
    task_set = DiscreteTaskSet(env, set_context, contexts, context_aware=plan["context_aware"])
    rb = MultiTaskReplayBuffer(ReplayBuffer(plan["buffer_size"]), n)
    backbone = plan["backbone"]
    stub = None
    if backbone == "stub":
        stub = StubTrainST()
        train_st = stub
    else:
        train_st = make_backbone(backbone, task_set.get_task(0), plan)
    budget = plan["b1"] + plan["b2"] if algo == "smt" else plan["total_timesteps"]
    warm = {"bad": None, "trained_at": None}
    if algo == "uts" and backbone != "stub":
        # C11.d through the scheduler: train_uts documents `exploring_starts` as the number of random exploration steps at the
        # beginning of training, so the backbone's networks must be untouched while fewer than that many steps were executed
        from .probes import state_hash

        mods = [train_st.keywords[k] for k in ("policy", "q") if k in train_st.keywords]
        h0 = tuple(state_hash(m) for m in mods)

        def watch(kind, e, info):
            if kind != "step" or warm["bad"] is not None:
                return
            k = e.n_steps
            if k <= plan["learning_starts"]:
                if tuple(state_hash(m) for m in mods) != h0:
                    warm["bad"] = k
            elif warm["trained_at"] is None and tuple(state_hash(m) for m in mods) != h0:
                warm["trained_at"] = k

        env.listeners.append(watch)
    try:
        if algo == "smt":
            from rl_blox.algorithm.smt import train_smt

            out = train_smt(task_set, train_st, rb, b1=plan["b1"], b2=plan["b2"], solved_threshold=plan["solved_threshold"],
                            unsolvable_threshold=plan["unsolvable_threshold"], scheduling_interval=plan["interval"], kappa=plan["kappa"],
                            K=min(plan["K"], n), n_average=plan["n_average"], learning_starts=plan["learning_starts"], seed=plan["seed"],
                            progress_bar=False)
            training_steps = np.asarray(out[1])
        elif algo == "active_mt":
            from rl_blox.algorithm.active_mt import train_active_mt

            out = train_active_mt(task_set, train_st, rb, r_max=plan["r_max"], ducb_gamma=plan["gamma"], xi=plan["zeta"],
                                  task_selector=plan["selector"], total_timesteps=plan["total_timesteps"],
                                  scheduling_interval=plan["interval"], learning_starts=plan["learning_starts"], seed=plan["seed"],
                                  progress_bar=False)
            training_steps = np.asarray(out[1])
        else:
            from rl_blox.algorithm.uniform_task_sampling import train_uts

            uts_st = train_st if backbone != "stub" else partial(stub, replay_buffer=rb)
            out = train_uts(task_set, uts_st, total_timesteps=plan["total_timesteps"], episodes_per_task=plan["interval"],
                            seed=plan["seed"], exploring_starts=plan["learning_starts"], progress_bar=False)
            training_steps = None
    except SimAbort as e:
        res.violate("C11.a", site, f"aborted by the environment: {e} (budget {budget})")
        return finish_sched(res, plan, env)
    except Exception as e:
        if not raised_by_code_under_test(e):
            raise
        res.violate("C11.raise", site, f"{type(e).__name__}: {e}")
        return finish_sched(res, plan, env)
    executed = env.n_steps
    res.simt("env_steps", executed)
    if warm["bad"] is not None:
        res.violate("C11.d", site, f"the backbone's networks had changed after only {warm['bad']} environment steps although exploring_starts={plan['learning_starts']} "
                                   f"({len([s for s in env.steps()[:warm['bad']] if s['term'] or s['trunc']])} episodes had ended by then)")
    elif algo == "uts" and backbone != "stub":
        res.probe("scheduler_warmup_frame_checked")
        if warm["trained_at"] is not None:
            res.probe("scheduler_training_started_after_warmup")
            if any(s["term"] or s["trunc"] for s in env.steps()[:plan["learning_starts"]]):
                res.probe("scheduler_warmup_spans_several_backbone_calls")
    if env.protocol:
        res.violate("C11.c", site, f"step() after an episode end without reset: {env.protocol[0]}")
    if executed > budget:
        res.violate("C11.f", site, f"{executed} environment steps executed on the task environments, total budget {budget}")
    per_ctx = {}
    for s in env.steps():
        per_ctx[s["ctx"]] = per_ctx.get(s["ctx"], 0) + 1
    if training_steps is not None:
        if int(training_steps.sum()) != executed:
            res.violate("C11.f", site, f"per-task training steps {training_steps.tolist()} sum to {int(training_steps.sum())}, but {executed} steps were executed on the task environments (budget {budget}; per context {per_ctx})")
        else:
            res.probe("scheduler_totals_exact")
            truth = [per_ctx.get(float(c[0]), 0) for c in contexts]
            if truth == training_steps.tolist():
                res.probe("per_task_attribution_exact")
            else:
                res.probe("per_task_attribution_differs")
        if len([x for x in training_steps if x > 0]) > 1:
            res.fault("several_tasks_trained")
    else:
        gs = getattr(out, "global_step", None)
        if gs is not None and int(gs) != executed:
            res.violate("C11.f", site, f"train_uts finished with global_step={int(gs)} but {executed} environment steps were executed (budget {budget})")
        elif gs is not None:
            res.probe("scheduler_totals_exact")
        if len(per_ctx) > 1:
            res.fault("several_tasks_trained")
    if executed == budget:
        res.fault("budget_exhausted")
        last = env.steps()[-1]
        if not (last["term"] or last["trunc"]):
            res.fault("budget_mid_episode")
        else:
            res.fault("episode_end_on_last_budgeted_step")
    if stub is not None:
        res.simt("train_st_calls", len(stub.calls))
    if plan.get("check_store"):
        check_task_stores(res, plan, env, rb, contexts, site)
    return finish_sched(res, plan, env)


def check_task_stores(res, plan, env, rb, contexts, site):
    """C01 in multi-task training: every row stored for task i is a transition the environment produced
    while task i's context was active, with all fields from that same step; nothing is stored twice."""
    from .simenv import obs_gid

    steps = {s["gid0"]: s for s in env.steps()}
    seen = set()
    for i, buf in enumerate(rb.buffers):
        n = len(buf)
        if n == 0:
            continue
        ctx = float(contexts[i][0])
        data = {k: np.asarray(v[:n]) for k, v in buf.buffer.items()}
        for r in range(n):
            o, no = data["observation"][r], data["next_observation"][r]
            if plan["context_aware"]:
                if float(o[0]) != ctx or float(no[0]) != ctx:
                    res.violate("C01.a", site, f"task {i} row {r}: stored context {float(o[0])} / {float(no[0])} but the buffer belongs to the task with context {ctx}")
                    return
                o, no = o[1:], no[1:]
            g0, g1 = obs_gid(o), obs_gid(no)
            s = steps.get(g0)
            if s is None or g1 != s["gid1"]:
                res.violate("C01.a", site, f"task {i} row {r}: (observation #{g0}, next #{g1}) is not a transition the environment produced (never-written or mixed storage)")
                return
            if s["ctx"] != ctx:
                res.violate("C01.a", site, f"task {i} row {r}: transition of env step {s['i']} was produced under context {s['ctx']} but is stored in the buffer of the task with context {ctx}")
                return
            a = np.asarray(s["a"], dtype=np.float64).reshape(-1)
            if not np.array_equal(np.asarray(data["action"][r], dtype=np.float64).reshape(-1), a) or float(data["reward"][r]) != float(s["r"]) \
                    or int(data["termination"][r]) != int(s["term"]):
                res.violate("C01.a", site, f"task {i} row {r}: action / reward / termination differ from env step {s['i']}")
                return
            if s["i"] in seen:
                res.violate("C01.a", site, f"env step {s['i']} is stored twice")
                return
            seen.add(s["i"])
    res.probe("multitask_rows_checked", len(seen))
    if len([b for b in rb.buffers if len(b)]) > 1:
        res.probe("multitask_several_task_buffers")


def finish_sched(res, plan, env):
    for e in env.log:
        if e["k"] == "step":
            res.log.add("s", e["i"], e["a"], e["gid0"], e["term"], e["trunc"], e["ctx"])
        elif e["k"] == "reset":
            res.log.add("r", e["gid"], e["ctx"])
    res.signature = "|".join(str(plan.get(k)) for k in ("scheduler", "backbone", "n_tasks", "interval", "b1", "b2", "total_timesteps", "selector", "learning_starts")) + "|" + ",".join(sorted(res.faults))
    return res


def make_backbone(name, env, plan):
    """Real single-task routines as train_st (as the repository's tests/examples do)."""
    from flax import nnx

    seed = plan["seed"]
    if name == "ddpg":
        from rl_blox.algorithm.ddpg import create_ddpg_state, train_ddpg

        st = create_ddpg_state(env, policy_hidden_nodes=[4], q_hidden_nodes=[4], seed=seed)
        return partial(train_ddpg, policy=st.policy, policy_optimizer=st.policy_optimizer, q=st.q, q_optimizer=st.q_optimizer,
                       policy_target=nnx.clone(st.policy), q_target=nnx.clone(st.q), batch_size=2)
    if name == "td3":
        from rl_blox.algorithm.td3 import create_td3_state, train_td3

        st = create_td3_state(env, policy_hidden_nodes=[4], q_hidden_nodes=[4], seed=seed)
        return partial(train_td3, policy=st.policy, policy_optimizer=st.policy_optimizer, q=st.q, q_optimizer=st.q_optimizer,
                       policy_target=nnx.clone(st.policy), q_target=nnx.clone(st.q), batch_size=2)
    if name == "sac":
        from rl_blox.algorithm.sac import EntropyControl, create_sac_state, train_sac

        st = create_sac_state(env, policy_hidden_nodes=[4], q_hidden_nodes=[4], seed=seed)
        return partial(train_sac, policy=st.policy, policy_optimizer=st.policy_optimizer, q=st.q, q_optimizer=st.q_optimizer,
                       entropy_control=EntropyControl(env, 0.2, True, 1e-3), q_target=nnx.clone(st.q), batch_size=2)
    raise ValueError(name)


# ----------------------------------------------------------------------------
# rollout helper


def exec_rollout(plan):
    from rl_blox.util.experiment_helper import generate_rollout

    res = Result()
    site = "generate_rollout"
    env = SimTabEnv(plan["n_states"], plan["n_actions"], plan["script"], plan["successors"], plan["rewards"], plan["starts"], max_steps=200)

    def policy(observation, key):
        return int(observation) % plan["n_actions"]

    try:
        obs, acts, rews = generate_rollout(env, policy, seed=plan["seed"])
    except SimAbort as e:
        obs = acts = rews = None
    except Exception as e:
        if not raised_by_code_under_test(e):
            raise
        res.violate("C11.raise", site, f"{type(e).__name__}: {e}")
        return res
    steps = env.steps()
    res.simt("env_steps", len(steps))
    end = plan["script"][0]["end"]
    res.fault("episode_ends_by_" + end)
    if env.protocol:
        p = env.protocol[0]
        res.violate("C11.c", site, f"env.step() called after the episode had ended by '{end}' (episode length {plan['script'][0]['len']}), without reset; {len(env.protocol)} such steps before the run was cut")
    elif len(steps) != plan["script"][0]["len"]:
        res.violate("C11.b", site, f"rollout executed {len(steps)} steps, the episode has {plan['script'][0]['len']}")
    else:
        res.probe("rollouts_checked")
        if obs is not None and (len(np.asarray(obs)) != len(steps) + 1 or len(np.asarray(acts)) != len(steps)):
            res.violate("C01.a", site, f"rollout returned {len(np.asarray(obs))} observations / {len(np.asarray(acts))} actions for {len(steps)} steps")
    for s in steps:
        res.log.add("s", s["i"], s["s"], s["a"], s["term"], s["trunc"])
    res.signature = f"rollout|{end}|{plan['script'][0]['len']}"
    return res


def execute(plan):
    k = plan["sched_kind"]
    if k == "selector":
        return exec_selector(plan)
    if k == "rollout":
        return exec_rollout(plan)
    return exec_scheduler(plan)


# ----------------------------------------------------------------------------
# plans

SELECTORS = ["RoundRobin", "DUCB", "Monotonic Progress", "Best Reward", "Diversity", "1-step Progress"]


def make_plan(rng, index):
    r = index % 10
    if r < 5:
        from_repo = None
        kind = rng.choice(["RoundRobin", "DUCB", "named", "named", "named"])
        n = rng.choice([1, 2, 3, 5, 8])
        ops = []
        for _ in range(rng.choice([5, 20, 60, 150, 320])):
            x = rng.random()
            if x < 0.004:
                ops.append(["select"])  # protocol misuse: select twice
            elif x < 0.008:
                ops.append(["feedback", 0.0])
            else:
                ops.append(["select"])
                ops.append(["feedback", rng.choice([rng.uniform(-5, 5), 0.0, 1.0, 1.0, -100.0, 100.0])])
        tasks = None
        if kind != "DUCB" and rng.random() < 0.4:
            tasks = sorted(rng.sample(range(0, 3 * n + 2), n))
        return {"sched_kind": "selector", "selector": kind, "named_index": rng.randrange(8), "n_tasks": n, "ops": ops, "tasks": tasks,
                "upper_bound": rng.choice([1.0, 10.0, 100.0]), "gamma": rng.choice([0.5, 0.9, 0.95, 0.99, 1.0]), "zeta": rng.choice([1e-8, 0.002, 0.5])}
    if r == 5:
        nS, nA = rng.choice([2, 4]), rng.choice([2, 3])
        return {"sched_kind": "rollout", "n_states": nS, "n_actions": nA, "script": [{"len": rng.choice([1, 2, 5, 9]), "end": rng.choice(["term", "trunc", "both"])}],
                "successors": [rng.randrange(nS) for _ in range(5)], "rewards": [1.0, 0.0], "starts": [rng.randrange(nS)], "seed": rng.randrange(1000)}
    algo = rng.choice(["smt", "active_mt", "uts"])
    n = rng.choice([1, 2, 3, 5])
    T = rng.choice([10, 20, 35, 60])
    real = r >= 8
    backbone = rng.choice(["ddpg", "td3", "sac"])
    if algo == "uts" and backbone == "ddpg":
        backbone = "td3"  # train_uts passes bar= to train_st, which train_ddpg does not accept (loud TypeError, not an accounting statement)
    plan = {
        "sched_kind": "scheduler", "scheduler": algo, "n_tasks": n, "backbone": backbone if real else "stub",
        "context_aware": rng.random() < 0.5, "buffer_size": rng.choice([4, 16, 1000]), "seed": rng.randrange(10**6),
        "interval": rng.choice([1, 1, 2, 3]), "learning_starts": rng.choice([0, 3, 1000]) if not real else rng.choice([4, 6, 9, 1000]),
        "total_timesteps": T, "b1": rng.choice([max(2, T // 2), T - 1]), "b2": rng.choice([1, 3, T // 2 + 1]),
        "solved_threshold": rng.choice([-1e9, 0.5, 1e9]), "unsolvable_threshold": rng.choice([-1e9, -0.5, 1e9]),
        "kappa": rng.choice([0.1, 0.5, 0.8]), "K": rng.choice([1, 2, 3]), "n_average": rng.choice([1, 3]),
        "r_max": rng.choice([1.0, 10.0]), "gamma": rng.choice([0.9, 0.95]), "zeta": 0.002,
        "selector": rng.choice(["Monotonic Progress", "Best Reward", "Diversity", "1-step Progress", "Round Robin"]),
        "env": {"script": make_script(rng, T + 10, style=rng.choice(["short", "mixed", "one_step", "long"])), "obs_dim": rng.choice([1, 2]), "act_dim": 1,
                "discrete": 0, "low": -1.0, "high": 1.0, "tail_len": rng.choice([1, 4]), "tail_end": rng.choice(["term", "trunc"]),
                "space_seed": rng.randrange(2**31), "max_steps": 4 * T + 100},
    }
    if algo == "active_mt" and rng.random() < 0.6:
        # boundary coincidence: the budget runs out inside a scheduling round, after at least one of its episodes has finished
        plan["interval"] = rng.choice([2, 3])
        lens = [ep["len"] for ep in plan["env"]["script"]]
        k = rng.choice([0, 1, 2]) * plan["interval"] + rng.randint(1, plan["interval"] - 1)
        if k + 1 < len(lens):
            plan["total_timesteps"] = sum(lens[:k]) + rng.randint(1, lens[k]) - (1 if lens[k] > 1 and rng.random() < 0.5 else 0)
            plan["total_timesteps"] = max(1, plan["total_timesteps"])
            plan["env"]["max_steps"] = 4 * plan["total_timesteps"] + 100
    return plan
