"""Adapters for the on-policy routines (REINFORCE, actor-critic, A2C, PPO) and CMA-ES."""
from __future__ import annotations

import numpy as np

from .simenv import SimEnv
from .trainsim import Adapter, register


class OnPolicy(Adapter):
    has_global_step = False
    has_total_episodes = False
    returns_step = False
    stops_exactly = False  # collection is batch / episode granular
    dynamic_markers = True
    marker_keys = ("policy loss", "value function loss")
    collector = None  # (module name, attribute) patched with a recording wrapper

    def cfg(self, rng, env_cfg, T=30):
        return {"hidden": rng.choice([3, 4]), "gamma": rng.choice([0.5, 0.9, 1.0]), "steps_per_update": rng.choice([1, 3, 5, 8, 13]),
                "train_after_episode": rng.random() < 0.3, "policy_gradient_steps": rng.choice([1, 2]), "value_gradient_steps": rng.choice([1, 2, 3]),
                "with_value_function": rng.random() < 0.8}

    def build(self, run):
        from rl_blox.algorithm import reinforce

        c = run.plan["cfg"]
        e = run.plan["env"]
        if e["discrete"]:
            st = reinforce.create_policy_gradient_discrete_state(run.env, policy_hidden_nodes=[c["hidden"]], policy_learning_rate=1e-2,
                                                                 value_network_hidden_nodes=[c["hidden"]], seed=run.plan["seed"])
        else:
            st = reinforce.create_policy_gradient_continuous_state(run.env, policy_hidden_nodes=[c["hidden"]], policy_learning_rate=1e-2,
                                                                   value_network_hidden_nodes=[c["hidden"]], seed=run.plan["seed"])
        return {"policy": st.policy, "policy_opt": st.policy_optimizer, "value_function": st.value_function, "vf_opt": st.value_function_optimizer}

    def outcome(self, run, r):
        return dict(buffer=None, step=None, comps={"policy": r.policy, "policy_opt": r.policy_optimizer})

    def acting(self, run):
        return run.comps["policy"]

    acting_method = "sample"

    def start_epoch(self, run, gs):
        return 0

    def expect_marker(self, run, k, key, es):
        if key == "policy loss":
            return {"policy", "policy_opt"}, []
        return {"value_function", "vf_opt"}, []

    def expect(self, run, k, es):
        # without a logger the dataset boundaries are not observable: everything trainable may change after an episode end
        st = run.env.steps()
        i = k - run.start_step
        if 0 <= i < len(st) and (st[i]["term"] or st[i]["trunc"]):
            return [(None, {"policy", "policy_opt", "value_function", "vf_opt"}, [])]
        return []

    def opt_steps_per_update(self, run, name):
        c = run.plan["cfg"]
        return c["policy_gradient_steps"] if name == "policy_opt" else c["value_gradient_steps"]

    def install(self, run):
        """Patch the collector used inside training with a recording wrapper."""
        import importlib

        run.datasets = []
        undo = []
        for modname, attr in self.collectors:
            mod = importlib.import_module(modname)
            orig = getattr(mod, attr)

            def wrapper(*a, _orig=orig, **k):
                first = [e.n_steps for e in run.sub_envs()]
                out = _orig(*a, **k)
                run.datasets.append((first, [e.n_steps for e in run.sub_envs()], out))
                return out

            setattr(mod, attr, wrapper)
            undo.append((mod, attr, orig))
        return undo


class Reinforce(OnPolicy):
    name = "reinforce"
    collectors = (("rl_blox.algorithm.reinforce", "sample_trajectories"),)
    kind = "episodes"

    def call(self, run, link, global_step):
        from rl_blox.algorithm.reinforce import train_reinforce

        c = run.plan["cfg"]
        m = run.comps
        vf = m["value_function"] if c["with_value_function"] else None
        return train_reinforce(run.env, m["policy"], m["policy_opt"], vf, m["vf_opt"] if vf is not None else None, seed=run.plan["seed"],
                               policy_gradient_steps=c["policy_gradient_steps"], value_gradient_steps=c["value_gradient_steps"],
                               total_timesteps=link["total_timesteps"], gamma=c["gamma"], steps_per_update=c["steps_per_update"],
                               train_after_episode=c["train_after_episode"], logger=run.logger, progress_bar=False)


class ActorCritic(OnPolicy):
    name = "actor_critic"
    collectors = (("rl_blox.algorithm.actor_critic", "sample_trajectories"),)
    kind = "episodes"

    def cfg(self, rng, env_cfg, T=30):
        c = super().cfg(rng, env_cfg, T)
        c["with_value_function"] = True
        return c

    def call(self, run, link, global_step):
        from rl_blox.algorithm.actor_critic import train_ac

        c = run.plan["cfg"]
        m = run.comps
        return train_ac(run.env, m["policy"], m["policy_opt"], m["value_function"], m["vf_opt"], seed=run.plan["seed"],
                        policy_gradient_steps=c["policy_gradient_steps"], value_gradient_steps=c["value_gradient_steps"],
                        total_timesteps=link["total_timesteps"], gamma=c["gamma"], steps_per_update=c["steps_per_update"],
                        train_after_episode=c["train_after_episode"], logger=run.logger, progress_bar=False)


class A2C(OnPolicy):
    name = "a2c"
    vector = True
    marker_keys = ("policy_loss",)
    collectors = (("rl_blox.algorithm.a2c", "collect_trajectories"),)
    kind = "rollout_time_major"

    def cfg(self, rng, env_cfg, T=30):
        return {"hidden": rng.choice([3, 4]), "gamma": rng.choice([0.9, 0.99]), "gae_lambda": rng.choice([0.0, 0.95, 1.0]),
                "steps_per_update": rng.choice([1, 2, 3, 5]), "policy_gradient_steps": rng.choice([1, 2]), "value_gradient_steps": rng.choice([1, 2]),
                "num_envs": rng.choice([2, 3])}  # train_a2c raises (shape error in prepare_a2c_batch) for a single environment: loud, not generated

    def call(self, run, link, global_step):
        from rl_blox.algorithm.a2c import train_a2c

        c = run.plan["cfg"]
        m = run.comps
        return train_a2c(run.vec, m["policy"], m["policy_opt"], m["value_function"], m["vf_opt"], seed=run.plan["seed"],
                         policy_gradient_steps=c["policy_gradient_steps"], value_gradient_steps=c["value_gradient_steps"],
                         total_timesteps=link["total_timesteps"], gamma=c["gamma"], gae_lambda=c["gae_lambda"],
                         steps_per_update=c["steps_per_update"], log_frequency=None, logger=run.logger, progress_bar=False)

    def expect_marker(self, run, k, key, es):
        return {"policy", "policy_opt", "value_function", "vf_opt"}, []

    def expect(self, run, k, es):
        return [(None, {"policy", "policy_opt", "value_function", "vf_opt"}, [])]


class PPO(OnPolicy):
    name = "ppo"
    vector = True
    marker_keys = ("loss",)
    collectors = (("rl_blox.algorithm.ppo", "collect_trajectories"),)
    kind = "rollout_env_major"
    force_discrete = True

    def cfg(self, rng, env_cfg, T=30):
        return {"hidden": rng.choice([3, 4]), "iterations": rng.choice([1, 2, 3]), "epochs": rng.choice([1, 2]), "batch_size": rng.choice([2, 4, 6]),
                "num_envs": rng.choice([1, 2, 3])}

    def build(self, run):
        import optax
        from flax import nnx
        from rl_blox.blox.function_approximator.mlp import MLP
        from rl_blox.blox.function_approximator.policy_head import SoftmaxPolicy

        c = run.plan["cfg"]
        e = run.plan["env"]
        seed = run.plan["seed"]
        actor = SoftmaxPolicy(MLP(e["obs_dim"], e["discrete"], [c["hidden"]], "relu", nnx.Rngs(seed)))
        critic = MLP(e["obs_dim"], 1, [c["hidden"]], "relu", nnx.Rngs(seed + 1))
        return {"policy": actor, "value_function": critic, "policy_opt": nnx.Optimizer(actor, optax.adam(1e-2), wrt=nnx.Param),
                "vf_opt": nnx.Optimizer(critic, optax.adam(1e-2), wrt=nnx.Param)}

    def call(self, run, link, global_step):
        from rl_blox.algorithm.ppo import train_ppo

        c = run.plan["cfg"]
        m = run.comps
        return train_ppo(run.vec, m["policy"], m["value_function"], m["policy_opt"], m["vf_opt"], iterations=c["iterations"],
                         epochs=c["epochs"], batch_size=c["batch_size"], seed=run.plan["seed"], logger=run.logger, progress_bar=False)

    def outcome(self, run, r):
        return dict(buffer=None, step=None, comps={"policy": r[0], "value_function": r[1], "policy_opt": r[2], "vf_opt": r[3]})

    def expect_marker(self, run, k, key, es):
        return {"policy", "policy_opt", "value_function", "vf_opt"}, []

    def expect(self, run, k, es):
        return [(None, {"policy", "policy_opt", "value_function", "vf_opt"}, [])]

    def opt_steps_per_update(self, run, name):
        return run.plan["cfg"]["epochs"]


class CMAES(Adapter):
    name = "cmaes"
    has_global_step = False
    has_total_episodes = True
    returns_step = False
    stops_exactly = False
    episodes_only = True
    update_before_act = True
    stores = False

    def cfg(self, rng, env_cfg, T=30):
        return {"hidden": rng.choice([2, 3]), "variance": rng.choice([0.1, 1.0]), "active": rng.random() < 0.5,
                "n_samples_per_update": rng.choice([None, 4, 5]), "total_episodes": rng.choice([1, 3, 6, 9])}

    def build(self, run):
        from flax import nnx
        from rl_blox.blox.function_approximator.mlp import MLP
        from rl_blox.blox.function_approximator.policy_head import DeterministicTanhPolicy

        c = run.plan["cfg"]
        e = run.plan["env"]
        net = MLP(e["obs_dim"], e["act_dim"], [c["hidden"]], "relu", nnx.Rngs(run.plan["seed"]))
        return {"policy": DeterministicTanhPolicy(net, run.env.action_space)}

    def call(self, run, link, global_step):
        from rl_blox.algorithm.cmaes import train_cmaes

        c = run.plan["cfg"]
        return train_cmaes(run.env, run.comps["policy"], total_episodes=link.get("total_episodes") or c["total_episodes"], seed=run.plan["seed"],
                           variance=c["variance"], n_samples_per_update=c["n_samples_per_update"], active=c["active"], logger=run.logger,
                           progress_bar=False)

    def outcome(self, run, r):
        run.cmaes_result = r
        return dict(buffer=None, step=None, comps={"policy": r.policy})

    def acting(self, run):
        return run.comps["policy"]

    def expect(self, run, k, es):
        st = run.env.steps()
        i = k - run.start_step
        if i < 0 or (0 <= i < len(st) and (st[i]["term"] or st[i]["trunc"])):
            return [(None, {"policy"}, [])]
        return []


for a in (Reinforce(), ActorCritic(), A2C(), PPO(), CMAES()):
    register(a)
