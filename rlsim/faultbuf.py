"""Fault-injecting replay buffers for twin runs (C03, C07).

The buffer handed to a training routine is a dynamic subclass of the REAL buffer class
(`replay_buffer=` argument seam).  Faults only touch data the property says must not
matter: the successor of terminated transitions (C03.a), the row order of a batch (C03.b),
everything after the first terminated step of a sampled sub-trajectory (C07).
A control fault touches data that MUST matter (non-vacuity probe).
"""
from __future__ import annotations

import numpy as np


def wrap(run, buf):
    f = run.plan["faults"]["buffer"]
    base = type(buf)
    st = {"calls": 0, "fired": 0, "sampled_faulted_rows": 0, "at_iter": None}
    run.fault_state = st

    def corrupt_store(self, want_term):
        n = len(self)
        if n < 3:
            return
        key = "terminated" if "terminated" in self.buffer else "termination"
        term = np.asarray(self.buffer[key][:n]).astype(int).reshape(n) == 1
        nobs = self.buffer["next_observation"]
        obs = self.buffer["observation"]
        for i in np.nonzero(term == want_term)[0]:
            src = (i + f.get("shift", 2)) % n
            rep = np.array(obs[src], copy=True)
            if np.array_equal(rep, nobs[i]) or np.array_equal(rep, obs[i]):
                src = (src + 1) % n
                rep = np.array(obs[src], copy=True)
            if not np.array_equal(rep, nobs[i]):
                nobs[i] = rep
                st["fired"] += 1

    class Faulty(base):
        def sample_batch(self, *a, **k):
            st["calls"] += 1
            kind = f["kind"]
            if kind in ("corrupt_terminated", "corrupt_nonterminated") and st["calls"] >= f.get("from_call", 1):
                corrupt_store(self, kind == "corrupt_terminated")
            out = base.sample_batch(self, *a, **k)
            if kind == "corrupt_terminated":
                b = out[0] if isinstance(out, tuple) and not hasattr(out, "_fields") else out
                key = "terminated" if hasattr(b, "terminated") else "termination"
                st["sampled_faulted_rows"] += int(np.asarray(getattr(b, key)).sum())
            if kind == "permute" and st["calls"] == f["at_call"]:
                out = permute(out, f.get("perm_seed", 0))
                st["fired"] += 1
                st["at_iter"] = run.iter_k
            if kind == "post_terminal" and st["calls"] == f["at_call"]:
                out, n_w = corrupt_post_terminal(out)
                st["fired"] += 1
                st["sampled_faulted_rows"] += n_w
                st["at_iter"] = run.iter_k
                st["include_intermediate"] = bool(a[2]) if len(a) > 2 else bool(k.get("include_intermediate"))
            return out

    buf.__class__ = Faulty
    return buf


def permute(batch, seed):
    import jax.numpy as jnp

    n = int(np.asarray(batch[0]).shape[0])
    perm = np.random.default_rng(seed).permutation(n)
    if np.array_equal(perm, np.arange(n)):
        perm = np.roll(perm, 1)
    return type(batch)(*[jnp.asarray(np.asarray(x)[perm]) for x in batch])


def corrupt_post_terminal(batch):
    """Rewrite every field after the first terminated step of each window with other
    finite stored values (taken from another window of the same batch)."""
    import jax.numpy as jnp

    d = {k: np.array(np.asarray(getattr(batch, k)), copy=True) for k in batch._fields}
    term = d["terminated"].astype(int)
    B, h = term.shape
    full = d["observation"].ndim == 3
    n_windows = 0
    for b in range(B):
        ks = np.nonzero(term[b])[0]
        if len(ks) == 0 or ks[0] == h - 1 and full is True and False:
            continue
        k = int(ks[0])
        if k >= h - 1 and full:
            # nothing after the terminated step; its own successor observation (the terminal state) is legitimately
            # read by the dynamics / representation losses, so it is NOT rewritten in the full view
            continue
        src = (b + 1) % B
        touched = False
        for j in range(k + 1, h):
            d["reward"][b, j] = d["reward"][src, (j + 1) % h] + 1.0
            d["terminated"][b, j] = 1 - d["terminated"][b, j]
            d["truncated"][b, j] = 1 - d["truncated"][b, j]
            if full:
                d["observation"][b, j] = d["observation"][src, 0]
                d["action"][b, j] = d["action"][src, 0] * 0.5
                d["next_observation"][b, j] = d["observation"][src, h - 1]
            touched = True
        if full and k + 1 <= h - 1:
            # the successor observation of the terminated step itself is also "after the termination"
            pass
        if not full:
            # reduced view: next_observation is the successor of the LAST step; whenever the window contains a terminated
            # step (also when it is the last one) that successor lies behind the termination
            d["next_observation"][b] = d["observation"][src]
            touched = True
        if touched:
            n_windows += 1
    out = type(batch)(**{k: jnp.asarray(v) for k, v in d.items()})
    return out, n_windows
