"""Run invariants evaluated on TrainSim event logs and snapshots."""
from __future__ import annotations

import numpy as np

from .probes import probe
from .simenv import obs_gid


def attach(run):
    mons = []
    cl = run.cl
    if cl & {"C01.a", "C01.b", "C01.content"}:
        if hasattr(run.adapter, "collectors"):
            mons.append(DatasetMonitor(run))
        elif getattr(run.adapter, "stores", True):
            mons.append(StoreMonitor(run))
    if cl & {"C01.c", "C01.d", "C10.a", "C10.e", "C13.a"}:
        mons.append(ActMonitor(run))
    if cl & {"C11.a", "C11.b", "C11.c", "C11.e"}:
        mons.append(BudgetMonitor(run))
    if cl & {"C05", "C06", "C11.d"}:
        run.monitor = True
        mons.append(ScheduleMonitor(run))
    if "C08.g" in cl and run.adapter.name in ("td3_lap", "td7", "mrq", "ddqn_per"):
        mons.append(PriorityMonitor(run))
    if "C04.train" in cl and run.adapter.name == "mrq":
        mons.append(TrainWindowMonitor(run))
    if "C15" in cl and run.adapter.name == "td7":
        mons.append(DeferredTrainingMonitor(run))
    if "C07.rtg" in cl and getattr(run.adapter, "kind", None) == "episodes":
        mons.append(ReturnMonitor(run))
    if "C07.ppo" in cl and run.adapter.name == "ppo":
        mons.append(PPOAdvantageMonitor(run))
    if "C10.wrap" in cl:
        mons.append(WrappedActionMonitor(run))
    if "C03.value" in cl:
        from . import refine

        if run.adapter.name in refine.NEEDS:
            mons.append(refine.RefinementMonitor(run))
    if cl & {"C10.b", "C10.c"} and run.plan.get("supply_targets") and run.adapter.name in ("td3", "td3_lap", "td7"):
        mons.append(TargetActionMonitor(run))
    return mons


class TargetActionMonitor:
    """C10.b/c: smoothed target actions, read from the action columns of the target
    critic's probe input, lie in the box and stay within noise_clip * half range of the
    target policy's own output on the same rows."""

    def __init__(self, run):
        self.run = run
        if run.adapter.name == "td7":
            # TD7: the target critic is called with (obs ++ action, zsa=, zs=), the target actor with (obs, zs)
            probe(run.comps["critic_target"], "qt", run.recorder)
            probe(run.comps["actor_target"], "pt", run.recorder)
        else:
            probe(run.comps["q_target"], "qt", run.recorder)
            probe(run.comps["policy_target"], "pt", run.recorder)

    def finish(self):
        run = self.run
        recs = getattr(run, "other_records", []) + [r for r in run.recorder.take() if r[0] != "acting"]
        env = run.env
        od = env.obs_dim
        lo, hi = env.action_space.low.astype(np.float64), env.action_space.high.astype(np.float64)
        half = (hi - lo) / 2.0
        clip = run.plan["cfg"]["noise_clip"]
        last_pt = None
        for tag, args, out in recs:
            if tag == "pt" and args and args[0].ndim == 2:
                last_pt = (args[0], np.asarray(out))
            elif tag == "qt" and args and args[0].ndim == 2 and args[0].shape[1] == od + lo.size:
                x = np.asarray(args[0], dtype=np.float64)
                a = x[:, od:]
                if np.any(a < lo) or np.any(a > hi) or not np.all(np.isfinite(a)):
                    run.V("C10.b", f"smoothed target action outside [{lo}, {hi}]: min {a.min(0)} max {a.max(0)}")
                    return
                run.res.probe("target_actions_in_bounds", a.shape[0])
                if np.any(a == lo) or np.any(a == hi):
                    run.res.probe("target_action_on_bound")
                if last_pt is not None and last_pt[0].shape == x[:, :od].shape and np.array_equal(last_pt[0].astype(np.float64), x[:, :od]):
                    d = np.abs(a - last_pt[1].astype(np.float64))
                    bound = clip * half * (1 + 1e-6) + 1e-7 * np.maximum(np.abs(lo), np.abs(hi))
                    if np.any(d > bound):
                        run.V("C10.c", f"target-smoothing perturbation {d.max(0)} exceeds noise_clip*half range = {clip}*{half}")
                        return
                    run.res.probe("smoothing_within_noise_clip", a.shape[0])
                    sigma = run.plan["cfg"].get("exploration_noise", 0) if run.adapter.name == "td3" else run.plan["cfg"].get("target_policy_noise", 0.2)
                    if "C10.f" in run.cl and sigma > 0 and clip >= 4 * sigma:
                        pt = last_pt[1].astype(np.float64)
                        ok = (pt - lo > 5 * sigma * half) & (hi - pt > 5 * sigma * half)
                        z = ((a - pt) / (sigma * half))[ok]
                        zs = run.res.extra.setdefault("smooth_z", [])
                        if len(zs) < 300:
                            zs.extend(float(x) for x in z.reshape(-1)[: 300 - len(zs)])
                    if clip > 0 and np.any(d >= 0.999 * clip * half):
                        run.res.probe("smoothing_noise_clipped")
                else:
                    run.res.unchecked += 1


# ----------------------------------------------------------------------------


def buffer_rows(buf):
    """Stored rows of a (possibly sub-trajectory) buffer through its documented
    public `buffer` mapping and len()."""
    n = len(buf)
    data = {k: np.asarray(v[:n]) for k, v in buf.buffer.items()}
    return n, data


class StoreMonitor:
    """C01.a/b: stored transitions == what the environment produced."""

    def __init__(self, run):
        self.run = run

    def finish(self):
        run = self.run
        buf = getattr(run, "buffer_out", None) or run.buffer
        if buf is None:
            return
        inner = getattr(buf, "inner", buf)  # fault wrappers expose the real buffer
        steps = run.env.steps()
        if not steps:
            return
        by_gid0 = {s["gid0"]: s for s in steps}
        final_obs = {s["gid1"]: s for s in steps if s["term"] or s["trunc"]}
        n, data = buffer_rows(inner)
        sub = "terminated" in data
        term_key = "terminated" if sub else "termination"
        N = inner.buffer_size
        seen = []
        for i in range(n):
            g0 = obs_gid(data["observation"][i])
            g1 = obs_gid(data["next_observation"][i])
            if sub and g0 is not None and g0 == g1:
                continue  # successor pseudo-row of the sub-trajectory buffer
            if g0 is None or g1 is None:
                run.V("C01.a", f"stored row {i}: observation/next_observation are not values the environment produced: {data['observation'][i]!r} -> {data['next_observation'][i]!r}")
                return
            s = by_gid0.get(g0)
            if s is None:
                if g0 in final_obs:
                    f = final_obs[g0]
                    run.V("C01.b", f"stored row {i} starts from observation #{g0}, the FINAL observation of episode {f['ep']} (env step {f['i']}); after that episode ended the environment was reset and returned a new observation, which the stored transition should start from")
                else:
                    run.V("C01.a", f"stored row {i}: observation #{g0} was never the current observation of any environment step")
                return
            if g1 != s["gid1"]:
                run.V("C01.a", f"stored row {i}: observation #{g0} is paired with next_observation #{g1}, but env step {s['i']} returned #{s['gid1']}")
                return
            a_st = np.asarray(data["action"][i])
            a_env = np.asarray(s["a"]).astype(a_st.dtype).reshape(a_st.shape) if np.size(s["a"]) == a_st.size else None
            if a_env is None or not np.array_equal(a_st, a_env):
                run.V("C01.d", f"stored row {i} (env step {s['i']}): stored action {a_st!r} != action passed to the environment {s['a']!r}")
                return
            if float(data["reward"][i]) != float(s["r"]):
                run.V("C01.a", f"stored row {i} (env step {s['i']}): stored reward {data['reward'][i]} != {s['r']}")
                return
            if int(data[term_key][i]) != int(s["term"]):
                run.V("C01.a", f"stored row {i} (env step {s['i']}): stored termination {data[term_key][i]} != {s['term']}")
                return
            if sub and int(data["truncated"][i]) != int(s["trunc"]):
                run.V("C01.a", f"stored row {i} (env step {s['i']}): stored truncated {data['truncated'][i]} != {s['trunc']}")
                return
            seen.append(s["i"])
        # completeness: the most recent transitions must all be there, each once
        total = len(steps)
        if len(set(seen)) != len(seen):
            run.V("C01.a", f"an environment step is stored twice: {sorted(seen)}")
            return
        if sub:
            must = list(range(max(0, total - N // 2), total))
        else:
            must = list(range(max(0, total - N), total))
            if sorted(seen) != must:
                run.V("C01.a", f"stored env steps {sorted(seen)[:4]}..{sorted(seen)[-3:]} (n={len(seen)}) != the most recent min(n,N) steps {must[:2]}..{must[-2:]} (n={len(must)}, N={N})")
                return
        missing = [i for i in must if i not in seen]
        if missing:
            run.V("C01.a", f"recent environment steps {missing[:5]} are not stored (N={N}, steps={total})")
            return
        run.res.probe("stored_rows_checked", len(seen))
        # reach: a stored transition right after an episode boundary
        firsts = {s["i"] for s in steps if s["t"] == 0 and s["i"] > 0}
        if firsts & set(seen):
            run.res.probe("stored_first_transition_after_reset", len(firsts & set(seen)))
        if total > N:
            run.res.fault("capacity_smaller_than_run")
        if any(s["t"] == 0 and (s["term"] or s["trunc"]) for s in steps):
            run.res.fault("one_step_episode")


class DatasetMonitor:
    """C01.a/b for on-policy collectors: every kept row belongs to one env-log entry of one
    environment, every env step of the collection window is kept exactly once, rows of one
    environment appear in time order (memory layout is not demanded)."""

    def __init__(self, run):
        self.run = run

    def rows_ok(self, where, env, first, obs, act, rew, nobs=None, term=None, trunc=None):
        run = self.run
        steps = env.steps()
        T = len(obs)
        if first + T > len(steps):
            run.V("C01.a", f"{where}: {T} rows kept but only {len(steps) - first} environment steps were executed in the collection window")
            return False
        final_obs = {s["gid1"]: s for s in steps if s["term"] or s["trunc"]}
        for t in range(T):
            s = steps[first + t]
            g0 = obs_gid(np.asarray(obs[t]).reshape(-1))
            if g0 != s["gid0"]:
                if g0 in final_obs and s["t"] == 0:
                    run.V("C01.b", f"{where} row {t}: starts from observation #{g0}, the FINAL observation of the previous episode; env step {s['i']} started from the reset observation #{s['gid0']}")
                else:
                    run.V("C01.a", f"{where} row {t}: observation #{g0}, but env step {s['i']} of that environment started from #{s['gid0']}")
                return False
            a_env = np.asarray(s["a"], dtype=np.float64).reshape(-1)
            a_st = np.asarray(act[t], dtype=np.float64).reshape(-1)
            if a_env.shape != a_st.shape or not np.array_equal(a_env, a_st):
                run.V("C01.d", f"{where} row {t}: kept action {a_st} != action passed to the environment {a_env} (env step {s['i']})")
                return False
            if float(np.asarray(rew[t])) != float(s["r"]):
                run.V("C01.a", f"{where} row {t}: kept reward {float(np.asarray(rew[t]))} != {s['r']} (env step {s['i']})")
                return False
            if nobs is not None and obs_gid(np.asarray(nobs[t]).reshape(-1)) != s["gid1"]:
                run.V("C01.a", f"{where} row {t}: successor observation #{obs_gid(np.asarray(nobs[t]).reshape(-1))} != #{s['gid1']} returned by env step {s['i']}")
                return False
            if term is not None and int(np.asarray(term[t])) != int(s["term"]):
                run.V("C01.a", f"{where} row {t}: kept termination flag {int(np.asarray(term[t]))} != {s['term']} (env step {s['i']})")
                return False
            if trunc is not None and int(np.asarray(trunc[t])) != int(s["trunc"]):
                run.V("C01.a", f"{where} row {t}: kept truncation flag {int(np.asarray(trunc[t]))} != {s['trunc']} (env step {s['i']})")
                return False
        run.res.probe("stored_rows_checked", T)
        if any(steps[first + t]["t"] == 0 and first + t > 0 for t in range(T)):
            run.res.probe("stored_first_transition_after_reset")
        return True

    def finish(self):
        run = self.run
        kind = run.adapter.kind
        envs = run.sub_envs()
        for n, (first, last, out) in enumerate(getattr(run, "datasets", [])):
            where = f"{run.adapter.collectors[0][1]} call {n}"
            if kind == "episodes":
                rows = [r for ep in out.episodes for r in ep]
                if len(rows) != last[0] - first[0]:
                    run.V("C01.a", f"{where}: {len(rows)} rows kept, {last[0] - first[0]} environment steps executed in that window")
                    return
                if not self.rows_ok(where, envs[0], first[0], [r[0] for r in rows], [r[1] for r in rows], [r[3] for r in rows], nobs=[r[2] for r in rows]):
                    return
                # episode partition
                steps = envs[0].steps()
                i = first[0]
                for ep in out.episodes:
                    if not ep:
                        continue
                    if steps[i]["t"] != 0 or not (steps[i + len(ep) - 1]["term"] or steps[i + len(ep) - 1]["trunc"]) or any(
                            steps[j]["term"] or steps[j]["trunc"] for j in range(i, i + len(ep) - 1)):
                        run.V("C01.a", f"{where}: an episode record of {len(ep)} rows is not exactly one environment episode (starts at step {steps[i]['t']} of episode {steps[i]['ep']})")
                        return
                    i += len(ep)
                if len([e for e in out.episodes if e]) > 1:
                    run.res.probe("dataset_with_several_episodes")
                # the arrays the learner actually consumes (public prepare_policy_gradient_dataset)
                try:
                    prep = out.prepare_policy_gradient_dataset(envs[0].action_space, run.plan["cfg"].get("gamma", 1.0))
                except Exception as e:
                    from .core import raised_by_code_under_test
                    if not raised_by_code_under_test(e):
                        raise
                    prep = None
                if prep is not None:
                    p_obs, p_act, p_nobs = np.asarray(prep[0]), np.asarray(prep[1]), np.asarray(prep[2])
                    if envs[0].discrete:
                        p_act = p_act + envs[0].action_space.start
                    if not self.rows_ok(where + " (prepared arrays)", envs[0], first[0], p_obs, p_act, [r[3] for r in rows], nobs=p_nobs):
                        return
                    run.res.probe("prepared_arrays_checked")
            elif kind == "rollout_time_major":
                buf = out[0]
                b = buf.buffer
                T = len(buf)
                for e, env in enumerate(envs):
                    if T != last[e] - first[e]:
                        run.V("C01.a", f"{where} env {e}: {T} rows kept, {last[e] - first[e]} steps executed")
                        return
                    if not self.rows_ok(f"{where} env {e}", env, first[e], b["obs"][:T, e], b["actions"][:T, e], b["rewards"][:T, e],
                                        term=b["terminations"][:T, e], trunc=b["truncations"][:T, e]):
                        return
            elif kind == "rollout_env_major":
                N = len(envs)
                obs = np.asarray(out.observation)
                T = obs.shape[0] // N
                act = np.asarray(out.action).reshape(N, T, -1)
                rew = np.asarray(out.reward).reshape(N, T)
                term = np.asarray(out.terminated).reshape(N, T)
                obs = obs.reshape(N, T, -1)
                for e, env in enumerate(envs):
                    if T != last[e] - first[e]:
                        run.V("C01.a", f"{where} env {e}: {T} rows kept, {last[e] - first[e]} steps executed")
                        return
                    if not self.rows_ok(f"{where} env {e}", env, first[e], obs[e], act[e], rew[e], term=term[e]):
                        return
            run.res.probe("datasets_checked")
        if len(envs) > 1:
            run.res.fault("parallel_environments")
        for env in envs:
            if any(s["t"] == 0 and (s["term"] or s["trunc"]) for s in env.steps()):
                run.res.fault("one_step_episode")


class WrappedActionMonitor:
    """C10.a behind an action-space-changing wrapper (RescaleAction): every action the routine passes to the environment it
    was given lies in THAT environment's action space (not in the box of the unwrapped environment)."""

    def __init__(self, run):
        self.run = run

    def finish(self):
        run = self.run
        env = run.env
        lo, hi = np.asarray(env.action_space.low, dtype=np.float64), np.asarray(env.action_space.high, dtype=np.float64)
        for i, a in enumerate(env.outer_actions):
            a = np.asarray(a, dtype=np.float64).reshape(-1)
            if a.shape != lo.shape or not np.all(np.isfinite(a)) or np.any(a < lo) or np.any(a > hi):
                run.V("C10.a", f"step {i}: action {a} passed to the environment lies outside its action space [{lo}, {hi}] "
                               f"(the environment is wrapped by RescaleAction; the unwrapped box is [{env.inner.action_space.low}, {env.inner.action_space.high}])")
                return
        if env.outer_actions:
            run.res.probe("wrapped_env_actions_in_bounds", len(env.outer_actions))
            ls = run.plan["cfg"].get("learning_starts", 0)
            if len(env.outer_actions) > ls:
                run.res.probe("wrapped_env_policy_actions_checked")


class ReturnMonitor:
    """C07 (reward-to-go inside REINFORCE / actor-critic training): for every dataset the collector handed to the learner the
    prepared returns equal the float64 recurrence G_t = r_t + gamma * G_{t+1} restarted in every episode record, and the
    discount column equals gamma ** t; inputs are the rewards the dataset itself holds."""

    def __init__(self, run):
        self.run = run

    def finish(self):
        run = self.run
        env = run.sub_envs()[0]
        g = run.plan["cfg"].get("gamma", 1.0)
        for n, (first, last, out) in enumerate(getattr(run, "datasets", [])):
            eps = [ep for ep in out.episodes if ep]
            if not eps:
                continue
            try:
                prep = out.prepare_policy_gradient_dataset(env.action_space, g)
            except Exception as e:
                from .core import raised_by_code_under_test
                if not raised_by_code_under_test(e):
                    raise
                run.V("C07.raise", f"prepare_policy_gradient_dataset raised {type(e).__name__}: {e}")
                return
            got = np.asarray(prep[3], dtype=np.float64).reshape(-1)
            disc = np.asarray(prep[4], dtype=np.float64).reshape(-1)
            want, wdisc = [], []
            for ep in eps:
                r = [float(x[3]) for x in ep]
                G = np.zeros(len(r))
                acc = 0.0
                for t in range(len(r) - 1, -1, -1):
                    acc = r[t] + g * acc
                    G[t] = acc
                want.extend(G)
                wdisc.extend(g ** np.arange(len(r)))
            want, wdisc = np.asarray(want), np.asarray(wdisc)
            if got.shape != want.shape:
                run.V("C07.rtg", f"dataset {n}: {got.size} returns for {want.size} kept steps")
                return
            tol = 1e-5 * (1 + np.abs(want)) * max(len(e) for e in eps)
            bad = np.abs(got - want) > tol
            if bad.any():
                i = int(np.argmax(bad))
                lens = [len(e) for e in eps]
                kinds = sorted({type(x[3]).__name__ for ep in eps for x in ep})
                run.V("C07.rtg", f"dataset {n}: reward-to-go of row {i} is {got[i]!r}, the recurrence G_t = r_t + gamma G_t+1 (restarted per episode) gives {want[i]!r}; "
                                 f"gamma={g}, episode lengths {lens}, reward types {kinds}, rewards {[x[3] for ep in eps for x in ep][:12]}")
                return
            if disc.shape == wdisc.shape and np.any(np.abs(disc - wdisc) > 1e-5 * (1 + wdisc)):
                i = int(np.argmax(np.abs(disc - wdisc)))
                run.V("C07.rtg", f"dataset {n}: discount column of row {i} is {disc[i]!r}, expected gamma**t = {wdisc[i]!r}")
                return
            run.res.probe("reward_to_go_matches_recurrence")
            if len(eps) > 1:
                run.res.probe("reward_to_go_over_several_episodes")
            if all(isinstance(x[3], (int, np.integer)) for x in eps[0]) and g < 1 and len(eps[0]) > 1:
                run.res.probe("reward_to_go_integer_rewards")


class PPOAdvantageMonitor:
    """C07 inside train_ppo (parallel scripted environments, SAME_STEP autoreset):
    (a) the value network is asked, for the bootstrap of environment e, only about observations of environment e (tags of
        parallel environments live in disjoint ranges); (b) the advantages / returns the loss receives equal, per environment,
        the GAE recurrence over that environment's own rollout segment (gamma=0.99, lambda=0.95: the documented defaults of
        compute_gae, which update_ppo does not override), cut at terminated steps, started from zero at the end of the segment.
    Observed through a probe on the critic, the recorded collector output and a recording wrapper around the module-level name
    `ppo_loss` (reports the arrays it is traced with through jax.debug.callback)."""

    GAMMA, LAMBDA = 0.99, 0.95

    def __init__(self, run):
        import importlib

        import jax

        from .probes import probe, probe_function

        self.run = run
        jax.clear_caches()  # update_ppo is jitted at module level: make sure it is traced with the wrapper, whatever ran before in this process
        self.mod = importlib.import_module("rl_blox.algorithm.ppo")
        self.undo = probe_function(self.mod, "ppo_loss", "ppo_loss", run.recorder)
        probe(run.comps["value_function"], "vf", run.recorder)

    def finish(self):
        import jax

        run = self.run
        mod, name, orig = self.undo
        setattr(mod, name, orig)
        recs = run.recorder.take()
        jax.clear_caches()
        envs = run.sub_envs()
        N = len(envs)
        T = run.plan["cfg"]["batch_size"]
        od = envs[0].obs_dim
        own = [set() for _ in envs]
        for e, env in enumerate(envs):
            for ev in env.log:
                if ev["k"] == "reset":
                    own[e].add(ev["gid"])
                elif ev["k"] == "step":
                    own[e].add(ev["gid1"])
        # (a) bootstrap inputs
        foreign = False
        for tag, args, out in recs:
            if foreign or tag != "vf" or not args or args[0].ndim != 2 or args[0].shape != (N, od):
                continue
            for e in range(N):
                g = obs_gid(args[0][e])
                if g is not None and g not in own[e]:
                    owner = next((j for j in range(N) if g in own[j]), None)
                    run.V("C07.ppo.bootstrap", f"the value bootstrap of environment {e} was computed from observation #{g}, which belongs to environment {owner}")
                    foreign = True
                    break
            if not foreign:
                run.res.probe("ppo_bootstrap_inputs_checked")
        # (a') the bootstrap of an environment must not depend on what the OTHER environments did in the same step: whether the
        # value after a truncated (not terminated) episode end is taken at the episode's final observation or at the reset
        # observation has to be the same rule for every such end of the run
        succ = []
        for env in envs:
            m, evs = {}, env.log
            k = 0
            for j, ev in enumerate(evs):
                if ev["k"] != "step":
                    continue
                nxt = evs[j + 1] if j + 1 < len(evs) else None
                m[k] = (ev, nxt["gid"] if nxt is not None and nxt["k"] == "reset" else None)
                k += 1
            succ.append(m)
        kinds = {}
        k = 0
        for tag, args, out in recs:
            if tag != "vf" or not args or args[0].ndim != 2 or args[0].shape != (N, od) or foreign:
                continue
            for e in range(N):
                ev, reset_gid = succ[e].get(k, (None, None))
                if ev is None or not ev["trunc"] or ev["term"]:
                    continue
                g = obs_gid(args[0][e])
                kind = "final" if g == ev["gid1"] else "reset" if g == reset_gid else "other"
                kinds.setdefault(kind, (e, k))
            k += 1
        if "final" in kinds and "reset" in kinds:
            (e1, k1), (e2, k2) = kinds["final"], kinds["reset"]
            together = [e for e in range(N) if succ[e].get(k2, (None, None))[0] is not None and (succ[e][k2][0]["trunc"] or succ[e][k2][0]["term"])]
            run.V("C07.ppo.bootstrap", f"truncated episode ends are bootstrapped inconsistently: environment {e1} at rollout step {k1} from the episode's final observation, environment {e2} at step {k2} "
                                       f"from the reset observation of the next episode (environments whose episodes ended at step {k2}: {together})")
        elif kinds:
            run.res.probe("ppo_truncation_bootstrap_rule_consistent")
            if any(sum(1 for e in range(N) if succ[e].get(kk, (None, None))[0] is not None and succ[e][kk][0]["trunc"] and not succ[e][kk][0]["term"]) > 1 for kk in range(k)):
                run.res.probe("ppo_simultaneous_truncations")
        # (b) advantages per environment
        losses = [(np.asarray(a[2] if len(a) > 2 else a[0]), a) for tag, a, out in recs if tag == "ppo_loss"]
        g, lam = self.GAMMA, self.LAMBDA
        for n, (first, last, out) in enumerate(getattr(run, "datasets", [])):
            obs = np.asarray(out.observation)
            if obs.shape[0] != N * T:
                run.res.unchecked += 1
                continue
            rec = None
            for tag, a, _ in recs:
                if tag != "ppo_loss":
                    continue
                cand = [x for x in a if x.ndim == 2 and x.shape == obs.shape and np.array_equal(x, obs)]
                vecs = [x for x in a if x.ndim == 1 and x.shape[0] == N * T and x.dtype.kind == "f"]
                if cand and len(vecs) >= 3:
                    rec = vecs
                    break
            if rec is None:
                run.res.unchecked += 1
                run.res.probe("ppo_loss_inputs_not_observed")
                continue
            # ppo_loss(actor, critic, old_logps, observations, actions, advantages, returns): float vectors in order
            adv, ret = (np.asarray(x, dtype=np.float64).reshape(N, T) for x in rec[-2:])
            v = ret - adv
            r = np.asarray(out.reward, dtype=np.float64).reshape(N, T)
            term = np.asarray(out.terminated, dtype=np.float64).reshape(N, T)
            nv = np.asarray(out.next_value, dtype=np.float64).reshape(N, T)
            want = np.zeros((N, T))
            acc = np.zeros(N)
            for t in range(T - 1, -1, -1):
                delta = r[:, t] + g * nv[:, t] * (1 - term[:, t]) - v[:, t]
                acc = delta + g * lam * (1 - term[:, t]) * acc
                want[:, t] = acc
            scale = 1 + np.abs(r).max() + np.abs(v).max() + np.abs(nv).max()
            tol = 1e-5 * (1 + np.abs(want)) + 64 * 1.2e-7 * scale * T
            bad = np.abs(adv - want) > tol
            if bad.any():
                e, t = (int(x) for x in np.argwhere(bad)[0])
                # would the value be explained by continuing the recursion into the next environment's segment?
                run.V("C07.ppo.gae", f"rollout {n}: advantage of environment {e} at time {t} is {adv[e, t]!r}; the GAE recurrence over that environment's own segment gives {want[e, t]!r} "
                                 f"({N} environments x {T} steps, terminated flags of that environment {term[e].astype(int).tolist()}, last step terminated: {bool(term[e, -1])})")
                return
            run.res.probe("ppo_advantages_match_per_environment_recurrence")
            if N > 1 and not term[:-1, -1].all():
                run.res.probe("ppo_segment_boundary_not_terminated")


class ActMonitor:
    """C01.c/d, C10.a/e, C13.a at the instant of env.step."""

    def __init__(self, run):
        self.run = run
        self.mod = run.adapter.acting(run) if not run.adapter.vector else None
        if self.mod is not None:
            probe(self.mod, "acting", run.recorder, getattr(run.adapter, "acting_method", "__call__"))
        run.check_acting = self.check
        self.n = 0

    def check(self, env, action):
        run = self.run
        cl = run.cl
        allrecs = run.recorder.take()
        run.other_records = getattr(run, "other_records", []) + [r for r in allrecs if r[0] != "acting"]
        recs = [r for r in allrecs if r[0] == "acting"]
        sampled = env.sample_since_step
        a = np.asarray(action)
        k = run.iter_k
        if env.discrete:
            if "C10.a" in cl and not (0 <= int(a) < env.discrete):
                run.V("C10.a", f"step {k}: action {a} outside Discrete({env.discrete})")
        elif "C10.a" in cl:
            lo, hi = env.action_space.low, env.action_space.high
            if a.shape != lo.shape or not np.all(np.isfinite(a)):
                run.V("C10.a", f"step {k}: action {a!r} has wrong shape / non-finite (space shape {lo.shape})")
            else:
                tol = 0.0 if sampled else np.spacing(np.maximum(np.abs(lo), np.abs(hi)).astype(np.float32))
                if np.any(a < lo - tol) or np.any(a > hi + tol):
                    run.V("C10.a", f"step {k}: action {a!r} outside [{lo}, {hi}]")
                else:
                    run.res.probe("actions_in_bounds")
                    if np.any(a == lo) or np.any(a == hi):
                        run.res.probe("action_on_bound")
        if sampled:
            if "C01.d" in cl:
                sv = np.asarray(sampled[-1])
                if not np.array_equal(np.asarray(a).reshape(-1).astype(np.float64), sv.reshape(-1).astype(np.float64)):
                    run.V("C01.d", f"step {k}: the sampler produced {sv!r} but the environment received {a!r}")
                else:
                    run.res.probe("sampled_action_passed_through")
            return
        # policy-driven step
        custom = getattr(run.adapter, "acting_obs", None)
        if custom is not None:
            unb = [r for r in recs if r[1]]
        else:
            unb = [r for r in recs if r[1] and r[1][0].ndim == 1]
            if not unb:
                unb = [r for r in recs if r[1] and r[1][0].ndim == 2 and r[1][0].shape[0] == 1]
        if custom is not None and unb and "C10.d" in cl:
            lo, hi = env.action_space.low, env.action_space.high
            for r in unb:
                cand = np.asarray(r[1][1])
                if np.any(cand < lo) or np.any(cand > hi) or not np.all(np.isfinite(cand)):
                    run.V("C10.d", f"step {k}: a planner candidate lies outside [{lo}, {hi}]: min {cand.min(axis=(0, 1))} max {cand.max(axis=(0, 1))}")
                    break
            else:
                run.res.probe("planner_candidates_in_bounds", sum(np.asarray(r[1][1]).shape[0] for r in unb))
        if "C01.c" in cl and (self.mod is not None or custom is not None):
            if not unb:
                run.res.unchecked += 1
            else:
                o = custom(unb[-1]) if custom is not None else unb[-1][1][0].reshape(-1)
                g = None if isinstance(o, str) else obs_gid(np.asarray(o).reshape(-1))
                if g != env.cur_gid:
                    what = "a stale observation" if g is not None else "a non-observation"
                    run.V("C01.c", f"step {k}: the acting policy was evaluated on {what} (#{g}) while the environment's current observation is #{env.cur_gid}")
                else:
                    run.res.probe("acting_on_current_obs")
        if custom is not None:
            return
        if "C13.a" in cl and env.discrete and "q" in run.comps:
            # independent of any probe: the LIVE online network, evaluated now on the current observation
            import jax.numpy as jnp

            ql = np.asarray(run.comps["q"](jnp.asarray(env.cur_obs)[None]))[0]
            if ql[int(a)] < ql.max() - 1e-5 * (1 + abs(ql.max())):
                run.V("C13.a", f"step {k}: no exploration sample was drawn, yet action {int(a)} is not greedy for the live Q-network on the current observation: Q={ql}")
            else:
                run.res.probe("greedy_wrt_live_network")
        if unb and "C10.e" in cl and not env.discrete and getattr(run.adapter, "tanh_actor", False):
            outp = np.asarray(unb[-1][2], dtype=np.float64).reshape(-1)
            lo64, hi64 = env.action_space.low.astype(np.float64), env.action_space.high.astype(np.float64)
            ulp = np.spacing(np.maximum(np.abs(lo64), np.abs(hi64)).astype(np.float32)).astype(np.float64)
            if outp.shape == lo64.shape and (np.any(outp < lo64 - 2 * ulp) or np.any(outp > hi64 + 2 * ulp)):
                run.V("C10.e", f"step {k}: the deterministic tanh policy's own output {outp} lies outside the action box [{lo64}, {hi64}] (beyond rounding of the bound)")
            elif outp.shape == lo64.shape:
                run.res.probe("tanh_policy_output_in_box")
        if unb and "C13.a" in cl and env.discrete:
            q = np.asarray(unb[-1][2]).reshape(-1)
            if q[int(a)] < q.max() - 1e-6 * (1 + abs(q.max())):
                run.V("C13.a", f"step {k}: no exploration sample was drawn, yet action {int(a)} is not greedy for Q={q}")
            else:
                run.res.probe("greedy_steps")
        if unb and "C10.f" in cl and not env.discrete and getattr(run.adapter, "deterministic_actor", True) \
                and run.plan["cfg"].get("exploration_noise", 0) > 0:
            sigma = run.plan["cfg"]["exploration_noise"]
            out = np.asarray(unb[-1][2], dtype=np.float64).reshape(-1)
            lo, hi = env.action_space.low.astype(np.float64), env.action_space.high.astype(np.float64)
            half = (hi - lo) / 2.0
            av = a.reshape(-1).astype(np.float64)
            if out.shape == av.shape:
                # only components whose clipping probability is negligible (policy output >= 5 sigma away from both bounds)
                ok = (out - lo > 5 * sigma * half) & (hi - out > 5 * sigma * half)
                z = ((av - out) / (sigma * half))[ok]
                zs = run.res.extra.setdefault("noise_z", [])
                if len(zs) < 300:
                    zs.extend(float(x) for x in z[: 300 - len(zs)])
                    run.res.probe("noise_scale_samples", int(ok.sum()))
        if unb and "C10.e" in cl and not env.discrete and run.plan["cfg"].get("exploration_noise", 1) == 0 \
                and getattr(run.adapter, "deterministic_actor", True):
            out = np.asarray(unb[-1][2]).reshape(-1)
            lo, hi = env.action_space.low, env.action_space.high
            exp = np.clip(out, lo, hi)
            if not np.array_equal(exp.astype(np.float32), a.reshape(-1).astype(np.float32)):
                run.V("C10.e", f"step {k}: exploration_noise=0 but action {a!r} != clip(policy output {out!r})")
            else:
                run.res.probe("noise0_action_equals_policy")

    def finish(self):
        pass


class BudgetMonitor:
    """C11.a/b/c/e from the call records and the env protocol log."""

    def __init__(self, run):
        self.run = run

    def finish(self):
        run = self.run
        ad = run.adapter
        for p in [q for e in run.sub_envs() for q in e.protocol]:
            if p["kind"] == "step_after_end":
                run.V("C11.c", f"env.step() called after episode {p['ep']} had ended, without reset (env step {p['at_step']})")
                break
        for c in run.calls:
            link = c["link"]
            if c["error"] or c["aborted"]:
                if c["aborted"]:
                    run.V("C11.a", f"run aborted by the environment: {c['aborted']}")
                continue
            T = link["total_timesteps"]
            budget = max(0, T - c["start"])
            E = link.get("total_episodes")
            ex = c["executed"]
            if getattr(ad, "episodes_only", False):
                E = E or run.plan["cfg"].get("total_episodes")
                stopped = getattr(getattr(run, "cmaes_result", None), "stopped", False)
                if c["episodes"] > E or (c["episodes"] < E and not stopped):
                    run.V("C11.b", f"{c['episodes']} episodes executed, total_episodes={E}, stopped={stopped}")
                else:
                    run.res.fault("episode_limit_exit")
                if not c["last_done"] and ex:
                    run.V("C11.b", "the last executed step did not end an episode")
                continue
            late = None
            if hasattr(ad, "collectors") and len(run.calls) == 1:
                # batch / episode granular collectors: no collection may START once the budget has been reached
                for n, (first, last, out) in enumerate(getattr(run, "datasets", [])):
                    started_at = sum(first) - run.steps_at_call_all
                    if started_at >= budget and sum(last) > sum(first):
                        late = (n, started_at)
                        break
            if late is not None:
                run.V("C11.a", f"collection {late[0]} was started after {late[1]} environment steps although total_timesteps={T} had already been reached ({ex} steps executed in total)")
            elif ex > budget and hasattr(ad, "collectors"):
                # the last collection started inside the budget and ran over it (documented collector granularity)
                run.V("C11.a.last_collection", f"executed {ex} environment steps with total_timesteps={T}: the last collection started inside the budget and overshot it")
            elif ex > budget:
                run.V("C11.a", f"executed {ex} environment steps with total_timesteps={T}, global_step={c['start']} (remaining budget {budget})")
            elif E is None and ex < budget and ad.stops_exactly:
                run.V("C11.a", f"executed only {ex} of the remaining budget {budget} without an episode limit")
            if E is not None and ad.has_total_episodes:
                if c["episodes"] > E:
                    run.V("C11.b", f"{c['episodes']} episodes finished although total_episodes={E}")
                elif c["episodes"] < E and ex < budget:
                    run.V("C11.b", f"stopped after {c['episodes']} episodes / {ex} steps although total_episodes={E} and budget {budget} were not reached")
                elif c["episodes"] == E:
                    run.res.fault("episode_limit_exit")
                    if not c["last_done"]:
                        run.V("C11.b", f"a step was executed after the {E}-th episode had finished")
            if ex == budget and budget > 0:
                run.res.fault("budget_exit")
                if hasattr(ad, "collectors"):
                    run.res.fault("budget_ends_at_collection_boundary")
                if c["last_done"]:
                    run.res.fault("episode_end_on_last_budgeted_step")
            if budget == 0:
                run.res.fault("zero_budget")
            if ad.returns_step and c.get("returned_step") is not None and "C11.e" in run.cl:
                if int(c["returned_step"]) != c["start"] + ex:
                    run.V("C11.e", f"returned step counter {int(c['returned_step'])} != start {c['start']} + executed {ex} (total_timesteps={T}, total_episodes={E}, exit={'episodes' if E is not None and c['episodes'] == E else 'budget'})")
                else:
                    run.res.probe("returned_counter_exact")
        if len(run.calls) > 1:
            run.res.fault("resume", len(run.calls) - 1)


# ----------------------------------------------------------------------------


def leaves_close(a, b, rtol, atol=1e-7):
    worst = 0.0
    for (pa, xa), (pb, xb) in zip(a, b):
        if xa.shape != xb.shape:
            return False, np.inf
        if xa.dtype.kind not in "fc":
            if not np.array_equal(xa, xb):
                return False, np.inf
            continue
        d = np.abs(xa.astype(np.float64) - xb.astype(np.float64))
        s = atol + rtol * np.maximum(np.abs(xa), np.abs(xb)).astype(np.float64)
        if np.any(~np.isfinite(d)):
            if not np.array_equal(np.isnan(xa), np.isnan(xb)):
                return False, np.inf
            d = np.nan_to_num(d)
        if d.size:
            worst = max(worst, float(np.max(d / s)))
    return worst <= 1.0, worst


def polyak(online, target, tau):
    out = []
    for (p, o), (_, t) in zip(online, target):
        if o.dtype.kind in "fc":
            out.append((p, (np.float32(tau) * o + np.float32(1.0 - tau) * t).astype(o.dtype)))
        else:
            out.append((p, t))
    return out


class ScheduleMonitor:
    """C05 (frame conditions at event granularity), C06 (target law and cadence),
    C11.d (nothing before warm-up)."""

    def __init__(self, run):
        self.run = run

    def finish(self):
        run = self.run
        ad = run.adapter
        snaps = run.snaps
        if len(snaps) < 2:
            return
        cl = run.cl
        changed_ever = set()
        expected_ever = set()
        i = 0
        es = {"epoch": None}
        # group snapshots into iterations: a ("step",) snapshot opens iteration k
        idx = [j for j, s in enumerate(snaps) if s.label[0] == "step"]
        # anything between a ("call",) snapshot and the first step: reset + acting only
        uba = getattr(ad, "update_before_act", False)
        for j in range(len(snaps) - 1):
            a, b = snaps[j], snaps[j + 1]
            if a.label[0] in ("call", "reset") and not uba:
                if b.label[0] in ("step", "reset", "call"):
                    ch = changed_from(a, b)
                    if ch:
                        self.report_frame(f"between {a.label[0]} and {b.label[0]} (no update is scheduled while resetting / acting)", ch, set(), b.k if b.k is not None else a.k)
        if uba:
            # interval from the call to the first env.step: the update of loop iteration `start`
            first = [j for j, s in enumerate(snaps) if s.label[0] == "call"]
            for j in first:
                nxt = [m for m in range(j + 1, len(snaps)) if snaps[m].label[0] == "step"]
                if nxt:
                    seg = snaps[j:nxt[0] + 1]
                    k0 = snaps[nxt[0]].k - 1
                    exp = ad.expect(run, k0, es)
                    markers = [m for m, s in enumerate(seg) if s.label[0] == "marker"]
                    if run.logger is not None:
                        self.check_markers(seg, markers, exp, k0)
        for n, j in enumerate(idx):
            k = snaps[j].k
            if n == len(idx) - 1 and getattr(run, "incomplete_last_iteration", False):
                break  # the routine raised / was aborted inside this iteration: its update schedule is not complete
            end = idx[n + 1] if n + 1 < len(idx) else len(snaps)
            # snapshots j .. end (exclusive) belong to iteration k; the closing point is snaps[end] or the return snapshot
            seg = snaps[j:end + 1] if end < len(snaps) else snaps[j:end]
            # cut at a ("call",) boundary (resume chains)
            cut = [m for m, s in enumerate(seg) if s.label[0] == "call" and m > 0]
            if cut:
                seg = seg[:cut[0]]
            es["call_start"] = self.call_start(j)
            if hasattr(ad, "start_epoch") and (es["epoch"] is None or self.is_call_start(j)):
                es["epoch"] = ad.start_epoch(run, self.call_start(j))
            markers = [m for m, s in enumerate(seg) if s.label[0] == "marker"]
            if getattr(ad, "dynamic_markers", False) and run.logger is not None and run.plan["cfg"].get("use_checkpoints", True):
                exp = []
                bad = False
                for m in markers:
                    r = ad.expect_marker(run, k, seg[m].label[1], es)
                    if r is None:
                        bad = True
                        break
                    exp.append((seg[m].label[1], r[0], r[1]))
                if bad:
                    clause = "C11.d" if "C11.d" in run.cl else "C05"
                    run.V(clause, f"iteration {k}: update event '{seg[m].label[1]}' before the documented warm-up condition was met")
                    continue
            else:
                exp = ad.expect(run, k, es)
                if getattr(ad, "dynamic_markers", False) and exp:
                    es["epoch"] += len(exp)
            have_log = run.logger is not None
            self.iter_start = seg[0]
            if have_log and any(e[0] is not None for e in exp) or (have_log and markers):
                self.check_markers(seg, markers, exp, k)
            else:
                allowed = set()
                for _, al, _ in exp:
                    allowed |= al
                ch = changed_from(seg[0], seg[-1])
                if ch - allowed:
                    self.report_frame(f"iteration {k}", ch - allowed, allowed, k)
                elif not exp and len(seg) > 1:
                    run.res.probe("quiet_iterations")
                self.check_events_coarse(seg[0], seg[-1], exp, k)
            for _, al, _ in exp:
                expected_ever |= al
            changed_ever |= changed_from(seg[0], seg[-1])
            if not ad.warmup_done(run, k) and len(seg) > 1:
                run.res.probe("warmup_iterations_observed")
        if "C06" in cl:
            self.check_no_shared_storage()
        # C05.e each trained component changed at least once when updates were scheduled
        if "C05" in cl and expected_ever:
            dead = {c for c in expected_ever if c in snaps[-1].leaves and c not in changed_ever
                    and not c.endswith("_target") and c not in getattr(ad, "may_stay", ())}
            taus = run.plan["cfg"].get("tau")
            if dead:
                run.res.probe("components_never_changed", len(dead))
                run.res.extra.setdefault("never_changed", sorted(dead))

    def check_no_shared_storage(self):
        """C06.e: a target shares no nnx.Variable with its online network."""
        from flax import nnx

        run = self.run
        comps = run.all_comps()

        def var_ids(m):
            try:
                return {id(v) for _, v in nnx.iter_graph(m) if isinstance(v, nnx.Variable)}
            except Exception:
                return set()

        for tgt, src in getattr(run.adapter, "target_pairs", ()):
            if comps.get(tgt) is None or comps.get(src) is None:
                continue
            if comps[tgt] is comps[src] or (var_ids(comps[tgt]) & var_ids(comps[src])):
                run.V("C06.e", f"'{tgt}' shares parameter storage with '{src}' (same nnx.Variable objects)")
            else:
                run.res.probe("target_storage_distinct")

    def call_start(self, j):
        """global_step of the call that snapshot index j belongs to."""
        for m in range(j, -1, -1):
            if self.run.snaps[m].label[0] == "call":
                return self.run.snaps[m].k
        return 0

    def is_call_start(self, j):
        """True iff snapshot j is the first ("step",) snapshot after a ("call",) one."""
        for m in range(j - 1, -1, -1):
            if self.run.snaps[m].label[0] == "step":
                return False
            if self.run.snaps[m].label[0] == "call":
                return True
        return False

    def report_frame(self, where, extra, allowed, k):
        run = self.run
        tg = {c for c in extra if c.endswith("_target") or "checkpoint" in c or c.startswith("fixed_")}
        other = extra - tg
        if other and ("C05" in run.cl):
            clause = "C11.d" if (not run.adapter.warmup_done(run, k) and "C11.d" in run.cl) else "C05"
            run.V(clause, f"{where}: components {sorted(other)} changed, documented schedule allows only {sorted(allowed)}")
        elif other and "C11.d" in run.cl and not run.adapter.warmup_done(run, k):
            run.V("C11.d", f"{where}: components {sorted(other)} changed before the documented warm-up condition was met")
        if tg and "C06" in run.cl:
            run.V("C06.c", f"{where}: target/copy components {sorted(tg)} changed outside their documented update points (allowed here: {sorted(allowed)})")
        elif tg and "C05" in run.cl and "C06" not in run.cl:
            run.V("C05", f"{where}: components {sorted(tg)} changed, documented schedule allows only {sorted(allowed)}")

    def check_markers(self, seg, markers, exp, k):
        """Marker-granular check with a coarse fall-back: if the per-update check reports something that the
        iteration-granular check (same documented schedule, whole iteration as one interval) does not, the logging
        is merely placed differently inside the iteration than this harness assumed - no violation."""
        run = self.run
        n0 = len(run.res.violations)
        self._check_markers(seg, markers, exp, k)
        new = run.res.violations[n0:]
        if not new or any(v["clause"] in ("C11.d", "C06.f") or "observed update events" in v["detail"] for v in new):
            return
        exp_m = [e for e in exp if e[0] is not None]
        n_events = sum(len(e[2]) for e in exp)
        if n_events and len(exp) != 1:
            return  # several chained target updates inside one iteration are not decidable at iteration granularity
        allowed = set()
        for _, al, _ in exp:
            allowed |= al
        n1 = len(run.res.violations)
        ch = changed_from(seg[0], seg[-1])
        if ch - allowed:
            return
        self.check_events(seg[0], seg[-1], [e for _, _, es in exp for e in es], k, ch)
        if len(run.res.violations) > n1:
            del run.res.violations[n1:]
            return
        if not self.opt_steps_ok_over_iteration(seg[0], seg[-1], exp):
            return  # the optimisers did not make the documented number of steps over the WHOLE iteration either
        del run.res.violations[n0:]
        run.res.probe("logging_placed_differently_than_assumed")

    def opt_steps_ok_over_iteration(self, a, b, exp):
        """Iteration-granular version of check_opt_steps: total optimiser steps between the first and the last snapshot of
        the iteration against the sum over its documented updates."""
        from .trainsim import opt_step

        run = self.run
        if "C05" not in run.cl:
            return True
        for name in b.leaves:
            if not name.endswith("_opt"):
                continue
            sa, sb = opt_step(a, name), opt_step(b, name)
            if sa is None or sb is None:
                continue
            n_exp = getattr(run.adapter, "opt_steps_per_update", lambda r, n: 1)(run, name)
            n_upd = sum(1 for _, allowed, _ in exp if name in allowed)
            if n_exp is None:
                continue
            if isinstance(n_exp, tuple) and n_exp[0] == "min":
                if sb - sa < n_exp[1] * n_upd:
                    return False
            elif sb - sa != n_exp * n_upd:
                return False
        return True

    def _check_markers(self, seg, markers, exp, k):
        run = self.run
        exp_m = [e for e in exp if e[0] is not None]
        obs_keys = [seg[m].label[1] for m in markers]
        if obs_keys != [e[0] for e in exp_m]:
            clause = "C11.d" if (not run.adapter.warmup_done(run, k) and "C11.d" in run.cl) else ("C05" if "C05" in run.cl else "C06.f")
            if clause in run.cl or clause.split(".")[0] in run.cl:
                run.V(clause, f"iteration {k}: observed update events {obs_keys} but the documented schedule prescribes {[e[0] for e in exp_m]}")
            return
        prev = 0
        for m, (key, allowed, events) in zip(markers, exp_m):
            a, b = seg[prev], seg[m]
            ch = changed_from(a, b)
            if ch - allowed:
                self.report_frame(f"iteration {k}, update '{key}'", ch - allowed, allowed, k)
            self.check_events(a, b, events, k, ch)
            self.check_opt_steps(a, b, allowed, k)
            run.res.probe("update_events_checked")
            if allowed - ch - {x for x in allowed if x.endswith("_target")}:
                pass
            prev = m
        # unmarked expectations (e.g. hard target copy without its own log key) + tail
        tail_allowed = set()
        tail_events = []
        for key, allowed, events in exp:
            if key is None:
                tail_allowed |= allowed
                tail_events += events
        a, b = seg[prev], seg[-1]
        if b is not a:
            ch = changed_from(a, b)
            if ch - tail_allowed:
                self.report_frame(f"iteration {k}, after the last logged update", ch - tail_allowed, tail_allowed, k)
            self.check_events(a, b, tail_events, k, ch)

    def check_opt_steps(self, a, b, allowed, k):
        from .trainsim import opt_step

        run = self.run
        if "C05" not in run.cl:
            return
        for name in b.leaves:
            if not name.endswith("_opt"):
                continue
            sa, sb = opt_step(a, name), opt_step(b, name)
            if sa is None or sb is None:
                continue
            n_exp = getattr(run.adapter, "opt_steps_per_update", lambda r, n: 1)(run, name)
            if isinstance(n_exp, tuple) and n_exp[0] == "min":
                if name in allowed and sb - sa < n_exp[1]:
                    run.V("C05", f"iteration {k}: a documented update of '{name}' was logged but its optimiser made {sb - sa} steps (at least {n_exp[1]} expected): the trained component did not change")
                elif name in allowed:
                    run.res.probe("optimizer_steps_exact")
                elif sb != sa:
                    run.V("C05", f"iteration {k}: optimiser '{name}' stepped although its module is not scheduled")
                continue
            if n_exp is None:
                if name not in allowed and sb != sa:
                    run.V("C05", f"iteration {k}: optimiser '{name}' stepped although its module is not scheduled")
                continue
            if name in allowed:
                if sb - sa != n_exp:
                    run.V("C05", f"iteration {k}: optimiser '{name}' advanced by {sb - sa} steps in one documented update (expected {n_exp})")
                else:
                    run.res.probe("optimizer_steps_exact")
            elif sb != sa:
                run.V("C05", f"iteration {k}: optimiser '{name}' stepped although its module is not scheduled")

    def check_events(self, a, b, events, k, ch):
        run = self.run
        if "C06" not in run.cl:
            return
        for ev in events:
            kind, tgt, src = ev[0], ev[1], ev[2]
            if tgt not in a.leaves or tgt not in b.leaves or src not in b.leaves:
                run.res.unchecked += 1
                continue
            if kind == "soft":
                tau = ev[3]
                want = polyak(b.leaves[src], a.leaves[tgt], tau)
                if tau in (0.0, 1.0):
                    ok = all(np.array_equal(x, y) for (_, x), (_, y) in zip(want, b.leaves[tgt]))
                    worst = 0.0 if ok else np.inf
                else:
                    ok, worst = leaves_close(want, b.leaves[tgt], rtol=4e-6, atol=1e-9)
                if not ok:
                    run.V("C06.a", f"iteration {k}: '{tgt}' after the soft update is not tau*{src} + (1-tau)*{tgt}_old with tau={tau} (worst deviation {worst:.3g} x tolerance)")
                else:
                    run.res.probe("soft_updates_checked")
                    if tau == 0.0:
                        run.res.fault("tau_0")
                    if tau == 1.0:
                        run.res.fault("tau_1")
            elif kind in ("hard", "hard_from_old", "hard_from_start"):
                # hard_from_start: the copy must equal the source as it was when the iteration began (TD7: the checkpoint keeps
                # the policy that was ASSESSED, i.e. before the training steps released in the same iteration)
                srcsnap = a if kind == "hard_from_old" else getattr(self, "iter_start", None) or a if kind == "hard_from_start" else b
                if src not in srcsnap.leaves:
                    run.res.unchecked += 1
                    continue
                ok = all(np.array_equal(x, y) for (_, x), (_, y) in zip(srcsnap.leaves[src], b.leaves[tgt]))
                if not ok:
                    run.V("C06.b", f"iteration {k}: '{tgt}' after its hard update differs from '{src}'")
                else:
                    run.res.probe("hard_updates_checked")
            # C06.e no aliasing: with 0 < tau < 1 and a changed online net the target must differ from it
            if kind == "soft" and 0.0 < ev[3] < 1.0 and src in ch:
                same = all(np.array_equal(x, y) for (_, x), (_, y) in zip(b.leaves[src], b.leaves[tgt]))
                if same:
                    run.V("C06.e", f"iteration {k}: '{tgt}' equals '{src}' bit for bit after an update with tau={ev[3]} (aliased storage?)")

    def check_events_coarse(self, a, b, exp, k):
        """Without per-update markers: only single scheduled updates are decidable."""
        evs = [e for _, _, es in exp for e in es]
        if len(exp) == 1:
            self.check_events(a, b, evs, k, changed_from(a, b))


def changed_from(a, b):
    out = set()
    for n in b.leaves:
        if n in a.leaves and a.h(n) != b.h(n):
            out.add(n)
    return out


class DeferredTrainingMonitor:
    """C15 inside train_td7: released train iterations vs environment steps of the assessment
    window, checkpoint events vs the reference state machine; observed through env + logger."""

    def __init__(self, run):
        self.run = run

    def finish(self):
        from .ckptsim import AssessRef

        run = self.run
        c = run.plan["cfg"]
        if run.logger is None or len(run.calls) != 1:
            return
        ls = c["learning_starts"]
        gs = run.calls[0]["start"]
        epoch = max(0, gs - ls)
        ref = AssessRef(c["max_episodes_when_checkpointing"], c["steps_before_checkpointing"], c["reset_weight"])
        per_iter = {}
        for k, ev in run.log_events:
            d = per_iter.setdefault(k, {"train": 0, "ckpt": 0, "ts": None})
            if ev[0] == "stat" and ev[1] == "embedding loss":
                d["train"] += 1
            elif ev[0] == "stat" and ev[1] == "training steps":
                d["ts"] = int(ev[2])
            elif ev[0] == "epoch" and ev[1] == "actor_checkpoint":
                d["ckpt"] += 1
        ep_len, ep_ret = 0, 0.0
        for s in run.env.steps():
            k = gs + s["i"]
            ep_len += 1
            ep_ret += s["r"]
            got = per_iter.get(k, {"train": 0, "ckpt": 0, "ts": None})
            done = s["term"] or s["trunc"]
            if not c["use_checkpoints"]:
                want = 1 if k >= ls else 0
                if got["train"] != want:
                    run.V("C15.a", f"iteration {k}: {got['train']} train iterations, expected {want} (use_checkpoints=False: one per step after warm-up)")
                    return
                if got["ckpt"]:
                    run.V("C15.c", f"iteration {k}: checkpoint event although use_checkpoints=False")
                    return
            else:
                want, upd = 0, False
                if done and k >= ls:
                    upd, want, cut = ref.episode(ep_len, ep_ret, epoch)
                    if cut:
                        run.res.fault("assessment_cut_short")
                    if ep_len > (k - ls + 1):
                        run.res.fault("episode_straddles_warmup")
                if got["train"] != want:
                    run.V("C15.a", f"iteration {k}: {got['train']} train iterations released, the assessment window collected {want} environment steps (episode len {ep_len}, return {ep_ret}, epoch {epoch})")
                    return
                if want and got["ts"] != want:
                    run.V("C15.a", f"iteration {k}: logged 'training steps'={got['ts']} but {want} were due")
                    return
                if bool(got["ckpt"]) != upd:
                    run.V("C15.c", f"iteration {k}: checkpoint replaced={bool(got['ckpt'])}, reference says {upd} (episode return {ep_ret}, best minimum {ref.best})")
                    return
                if want:
                    run.res.probe("releases")
                if upd:
                    run.res.probe("checkpoint_updates")
                epoch += want
            if done:
                ep_len, ep_ret = 0, 0.0
        if ref.switches:
            run.res.fault("window_switch")
        run.res.probe("td7_timelines")


class PriorityMonitor:
    """C08.g/i inside training: the loops hand positive finite priorities to the buffer, every
    update_priority directly follows a sample_batch on the same buffer (no add in between), and
    lap_priority / per_priority are non-decreasing on the |TD| values that actually flowed."""

    MODS = {"td3_lap": "rl_blox.algorithm.td3_lap", "td7": "rl_blox.algorithm.td7", "mrq": "rl_blox.algorithm.mrq", "ddqn_per": "rl_blox.algorithm.per"}

    def __init__(self, run):
        import importlib

        self.run = run
        self.calls = []
        self.flow = []
        buf = run.buffer
        base = type(buf)
        mon = self

        class Recording(base):
            def add_sample(self, *a, **k):
                mon.calls.append(("add",))
                return base.add_sample(self, *a, **k)

            def sample_batch(self, *a, **k):
                mon.calls.append(("sample", a[0] if a else k.get("batch_size")))
                return base.sample_batch(self, *a, **k)

            def update_priority(self, priority):
                mon.calls.append(("update", np.array(np.asarray(priority), dtype=np.float64, copy=True)))
                return base.update_priority(self, priority)

        buf.__class__ = Recording
        self.mod = importlib.import_module(self.MODS[run.adapter.name])
        self.undo = []
        for fn in ("lap_priority", "per_priority"):
            if hasattr(self.mod, fn):
                orig = getattr(self.mod, fn)

                def wrapper(abs_td_error, *a, _orig=orig, _fn=fn, **k):
                    out = _orig(abs_td_error, *a, **k)
                    mon.flow.append((_fn, np.asarray(abs_td_error, dtype=np.float64).reshape(-1), np.asarray(out, dtype=np.float64).reshape(-1)))
                    return out

                setattr(self.mod, fn, wrapper)
                self.undo.append((fn, orig))
        run._undo = getattr(run, "_undo", [])

    def finish(self):
        run = self.run
        for fn, orig in self.undo:
            setattr(self.mod, fn, orig)
        prev = None
        for c in self.calls:
            if c[0] == "update":
                v = c[1].reshape(-1)
                if not np.all(np.isfinite(v)) or np.any(v <= 0):
                    run.V("C08.g", f"training passed a non-positive / non-finite priority to the buffer: {v[:6]}")
                    return
                if prev is None or prev[0] != "sample":
                    run.V("C08.i", f"update_priority was not directly preceded by sample_batch on the same buffer (previous operation: {prev[0] if prev else None})")
                    return
                if v.size not in (1, int(prev[1])):
                    run.V("C08.i", f"{v.size} priorities supplied for a batch of {prev[1]}")
                    return
                run.res.probe("training_priority_updates")
            prev = c
        for fn, x, y in self.flow:
            if x.size != y.size:
                continue
            o = np.argsort(x, kind="stable")
            xs, ys = x[o], y[o]
            if np.any(ys <= 0):
                run.V("C08.g", f"{fn} produced a non-positive priority for |TD| {xs[np.argmin(ys)]}")
                return
            bad = np.nonzero((np.diff(ys) < -1e-6 * (1 + np.abs(ys[:-1]))) & (np.diff(xs) > 0))[0]
            if bad.size:
                i = int(bad[0])
                run.V("C08.g", f"{fn} is not non-decreasing on the |TD| errors of one batch: |TD| {xs[i]:.6g} -> {ys[i]:.6g} but {xs[i + 1]:.6g} -> {ys[i + 1]:.6g}")
                return
            run.res.probe("priority_monotone_batches")
            if x.size > 1 and x.min() < 1.0 < x.max():
                run.res.probe("td_errors_straddle_min_priority")


class TrainWindowMonitor:
    """C04 inside MR.Q training: every sub-trajectory the routine samples from the buffer IT created (replay_buffer=None)
    is, up to its first terminated step, a contiguous single-episode run without a truncated step. The buffer class name
    used by rl_blox.algorithm.mrq is replaced by a recording subclass of the real class."""

    def __init__(self, run):
        import importlib

        self.run = run
        self.mod = importlib.import_module("rl_blox.algorithm.mrq")
        self.orig = self.mod.SubtrajectoryReplayBufferPER
        mon = self
        self.batches = []

        class Recording(self.orig):
            def sample_batch(self, batch_size, horizon, include_intermediate, rng):
                out = super().sample_batch(batch_size, horizon, include_intermediate, rng)
                if len(mon.batches) < 400:
                    mon.batches.append((horizon, bool(include_intermediate), {k: np.asarray(getattr(out, k)) for k in out._fields}, mon.run.env.n_steps))
                return out

        self.mod.SubtrajectoryReplayBufferPER = Recording

    def finish(self):
        run = self.run
        self.mod.SubtrajectoryReplayBufferPER = self.orig
        steps = run.env.steps()
        by_gid0 = {s["gid0"]: s for s in steps}
        for h, full, f, n_at in self.batches:
            term = f["terminated"].astype(int)
            trunc = f["truncated"].astype(int)
            B = term.shape[0]
            for b in range(B):
                first = f["observation"][b, 0] if full else f["observation"][b]
                g = obs_gid(np.asarray(first).reshape(-1))
                s0 = by_gid0.get(g)
                if s0 is None:
                    run.V("C04.written", f"sampled window {b} starts at observation #{g}, which was never the current observation of an environment step (never-written or pseudo row)")
                    return
                ks = np.nonzero(term[b])[0]
                k = int(ks[0]) if len(ks) else h - 1
                for j in range(k + 1):
                    i = s0["i"] + j
                    if i >= n_at:
                        run.V("C04.window", f"window {b} (start env step {s0['i']}, horizon {h}) extends beyond the newest stored step {n_at - 1}: it crossed the write position")
                        return
                    s = steps[i]
                    if s["ep"] != s0["ep"]:
                        run.V("C04.window", f"window {b} (start env step {s0['i']} of episode {s0['ep']}, horizon {h}) runs into episode {s['ep']} without a terminated step in between")
                        return
                    if float(f["reward"][b, j]) != float(s["r"]) or int(term[b, j]) != int(s["term"]):
                        run.V("C04.window", f"window {b} row {j}: reward / terminated {float(f['reward'][b, j])}/{int(term[b, j])} are not those of env step {i} ({s['r']}/{int(s['term'])})")
                        return
                    if int(trunc[b, j]) or s["trunc"]:
                        run.V("C04.trunc", f"window {b} (start env step {s0['i']}, horizon {h}) contains the truncated env step {i}")
                        return
                    if full and obs_gid(np.asarray(f["observation"][b, j]).reshape(-1)) != s["gid0"]:
                        run.V("C04.window", f"window {b} row {j}: observation is not that of env step {i}")
                        return
                last = steps[s0["i"] + k]
                nob = f["next_observation"][b, k] if full else f["next_observation"][b]
                if (full or k == h - 1) and not len(ks) and obs_gid(np.asarray(nob).reshape(-1)) != last["gid1"]:
                    run.V("C04.reduced" if not full else "C04.window", f"window {b}: next_observation is not the successor of the window's last step (env step {last['i']})")
                    return
                run.res.probe("training_windows_checked")
                if len(ks) and k < h - 1:
                    run.res.probe("training_window_with_early_termination")
