"""TabularSim: the real tabular learners driven by a scripted discrete
environment; a float64 numpy reference learner is fed from the env log only.

Serves C14 (refinement of the textbook updates along recorded histories),
C13.c/d (greedy unless exploring; epsilon=1 ignores values), C01 tabular rows,
C11.c for generate_rollout.
"""
from __future__ import annotations

import gymnasium as gym
import numpy as np

from .core import Result, raised_by_code_under_test
from .simenv import SimAbort


class SimTabEnv(gym.Env):
    """Discrete scripted env: successor states, rewards, episode ends and start
    states all come from the plan; the action is recorded and ignored."""

    def __init__(self, n_states, n_actions, script, successors, rewards, starts, max_steps=2000):
        self.observation_space = gym.spaces.Discrete(n_states)
        self.action_space = gym.spaces.Discrete(n_actions)
        self.action_space.seed(0)
        self.script, self.successors, self.rewards, self.starts = script, successors, rewards, starts
        self.log = []
        self.ep = 0
        self.t = 0
        self.n = 0
        self.done = True
        self.s = None
        self.protocol = []
        self.max_steps = max_steps
        self.n_resets = 0

    def _ep(self):
        i = self.ep - 1
        return self.script[i] if i < len(self.script) else {"len": 5, "end": "trunc"}

    def reset(self, *, seed=None, options=None):
        self.n_resets += 1
        self.ep += 1
        self.t = 0
        self.done = False
        self.s = int(self.starts[(self.ep - 1) % len(self.starts)])
        self.log.append({"k": "reset", "s": self.s, "seed": seed})
        return self.s, {}

    def step(self, action):
        if self.n >= self.max_steps:
            raise SimAbort("too many steps")
        bad = None
        if self.done:
            self.protocol.append({"kind": "step_after_end", "at_step": self.n, "ep": self.ep,
                                  "after": self.log[-1].get("end") if self.log else None})
            bad = True
            if len(self.protocol) > 5:
                raise SimAbort("repeated step() on a finished episode")
            self.ep += 1
            self.t = 0
            self.done = False
        e = self._ep()
        s0 = self.s
        s1 = int(self.successors[self.n % len(self.successors)])
        r = float(self.rewards[self.n % len(self.rewards)])
        self.t += 1
        self.n += 1
        last = self.t >= e["len"]
        term = bool(last and e["end"] in ("term", "both"))
        trunc = bool(last and e["end"] in ("trunc", "both"))
        self.s = s1
        self.log.append({"k": "step", "i": self.n - 1, "s": s0, "a": int(action), "r": r, "s1": s1, "term": term,
                         "trunc": trunc, "ep": self.ep, "t": self.t - 1, "bad": bad, "end": e["end"] if last else None})
        if term or trunc:
            self.done = True
        return s1, r, term, trunc, {"episode": {"r": 0.0, "l": self.t}}

    def steps(self):
        return [e for e in self.log if e["k"] == "step"]


def make_tab_plan(rng, algo, T=None):
    nS, nA = rng.choice([2, 3, 4, 5]), rng.choice([2, 3, 4])
    T = T or rng.choice([1, 1, 2, 3, 5, 8, 15, 30, 50])
    style = rng.choice(["short", "mixed", "one_step", "long"])
    script, tot = [], 0
    while tot < T + 3:
        L = {"short": rng.randint(1, 3), "mixed": rng.choice([1, 2, 3, 5, 8]), "one_step": 1, "long": rng.randint(6, 20)}[style]
        script.append({"len": L, "end": rng.choice(["term", "term", "trunc", "both"])})
        tot += L
    return {
        "algo": algo, "n_states": nS, "n_actions": nA, "T": T, "script": script,
        "successors": [rng.randrange(nS) for _ in range(rng.choice([3, 7, 13]))],
        "rewards": [rng.choice([-2.0, -1.0, -0.5, 0.0, 0.25, 0.5, 1.0, 3.0]) for _ in range(rng.choice([1, 4, 9]))],
        "starts": [rng.randrange(nS) for _ in range(rng.choice([1, 2, 5]))],
        "q0": [[round(rng.uniform(-2, 2), 3) for _ in range(nA)] for _ in range(nS)],
        "q0b": [[round(rng.uniform(-2, 2), 3) for _ in range(nA)] for _ in range(nS)],
        "lr": rng.choice([0.05, 0.1, 0.5, 1.0]), "gamma": rng.choice([0.0, 0.5, 0.9, 0.99, 1.0]),
        "epsilon": rng.choice([0.0, 0.0, 0.3, 1.0]), "seed": rng.randrange(2**31),
        "n_planning_steps": rng.choice([0, 0, 0, 1]),
    }


def close(a, b, rtol=2e-5, atol=2e-5):
    return np.allclose(np.asarray(a, dtype=np.float64), np.asarray(b, dtype=np.float64), rtol=rtol, atol=atol)


class TabRun:
    def __init__(self, plan):
        self.plan = plan
        self.res = Result()
        self.prop = plan["check"]
        self.cl = set(plan["clauses"])
        self.site = "train_" + plan["algo"]

    def V(self, clause, detail, site=None):
        self.res.violate(clause, site or self.site, detail)

    def env(self, p=None):
        p = p or self.plan
        return SimTabEnv(p["n_states"], p["n_actions"], p["script"], p["successors"], p["rewards"], p["starts"])

    def train(self, env, q0, q0b=None, epsilon=None, T=None, seed=None):
        import jax.numpy as jnp

        p = self.plan
        eps = p["epsilon"] if epsilon is None else epsilon
        T = p["T"] if T is None else T
        seed = p["seed"] if seed is None else seed
        algo = p["algo"]
        q = jnp.asarray(np.asarray(q0, dtype=np.float32))
        if algo == "q_learning":
            from rl_blox.algorithm.q_learning import train_q_learning

            return (np.asarray(train_q_learning(env, q, learning_rate=p["lr"], epsilon=eps, gamma=p["gamma"], total_timesteps=T, seed=seed, progress_bar=False)),)
        if algo == "sarsa":
            from rl_blox.algorithm.sarsa import train_sarsa

            return (np.asarray(train_sarsa(env, q, learning_rate=p["lr"], epsilon=eps, gamma=p["gamma"], total_timesteps=T, seed=seed, progress_bar=False)),)
        if algo == "double_q_learning":
            from rl_blox.algorithm.double_q_learning import train_double_q_learning

            qb = jnp.asarray(np.asarray(q0b, dtype=np.float32))
            r = train_double_q_learning(env, q, qb, learning_rate=p["lr"], epsilon=eps, gamma=p["gamma"], total_timesteps=T, seed=seed, progress_bar=False)
            return np.asarray(r[0]), np.asarray(r[1])
        if algo == "monte_carlo":
            from rl_blox.algorithm.monte_carlo import train_monte_carlo

            r = train_monte_carlo(env, q, T, epsilon=eps, gamma=p["gamma"], seed=seed, progress_bar=False)
            return np.asarray(r[0]), np.asarray(r[1])
        if algo == "dynaq":
            from rl_blox.algorithm import dynaq as _dq
            from rl_blox.algorithm.dynaq import train_dynaq

            orig = _dq.planning
            self.models = []

            def planning(model_transition, model_reward, *a, **k):
                self.models.append((np.asarray(model_transition), np.asarray(model_reward)))
                return orig(model_transition, model_reward, *a, **k)

            _dq.planning = planning
            try:
                return (np.asarray(train_dynaq(env, q, gamma=p["gamma"], learning_rate=p["lr"], epsilon=eps, n_planning_steps=p["n_planning_steps"],
                                               buffer_size=p.get("buffer_size", 1000), total_timesteps=T, seed=seed, progress_bar=False)),)
            finally:
                _dq.planning = orig
        if algo == "dynaq_unused":
            from rl_blox.algorithm.dynaq import train_dynaq

            return (np.asarray(train_dynaq(env, q, gamma=p["gamma"], learning_rate=p["lr"], epsilon=eps, n_planning_steps=p["n_planning_steps"],
                                           buffer_size=p.get("buffer_size", 1000), total_timesteps=T, seed=seed, progress_bar=False)),)
        raise ValueError(algo)

    # ---------------------------------------------------------------- reference learners
    def ref_q(self, steps, q0, terminal_aware=True):
        p = self.plan
        q = np.array(q0, dtype=np.float64)
        tables = [q.copy()]
        for s in steps:
            nxt = 0.0 if (s["term"] and terminal_aware) else q[s["s1"]].max()
            q[s["s"], s["a"]] += p["lr"] * (s["r"] + p["gamma"] * nxt - q[s["s"], s["a"]])
            tables.append(q.copy())
        return q, tables

    def ref_mc(self, steps, q0):
        p = self.plan
        q = np.array(q0, dtype=np.float64)
        n = np.zeros_like(q)
        rets = {}
        ep = []
        for s in steps:
            ep.append(s)
            if s["term"] or s["trunc"]:
                G = 0.0
                for x in reversed(ep):
                    G = x["r"] + p["gamma"] * G
                    rets.setdefault((x["s"], x["a"]), []).append(G)
                ep = []
        for (s, a), v in rets.items():
            q[s, a] = float(np.mean(v))
            n[s, a] = len(v)
        return q, n

    # ---------------------------------------------------------------- run
    def run(self):
        p = self.plan
        env = self.env()
        algo = p["algo"]
        try:
            out = self.train(env, p["q0"], p["q0b"])
        except SimAbort as e:
            self.V("C11.a", f"aborted: {e}")
            return self.finish(env)
        except Exception as e:
            if not raised_by_code_under_test(e):
                raise
            self.V(f"{self.prop}.raise", f"{type(e).__name__}: {e}")
            return self.finish(env)
        steps = env.steps()
        self.res.simt("env_steps", len(steps))
        self.res.log.add("tables", [np.asarray(o) for o in out])
        for s in steps:
            self.res.log.add("s", s["i"], s["s"], s["a"], s["r"], s["s1"], s["term"], s["trunc"])
        if any(s["term"] for s in steps):
            self.res.fault("terminated_step")
        if any(s["trunc"] and not s["term"] for s in steps):
            self.res.fault("truncated_step")
        if len({(s["s"], s["a"], s["s1"]) for s in steps}) > len({(s["s"], s["a"]) for s in steps}):
            self.res.fault("stochastic_successor")
        if "C11" in self.cl or "C11.c" in self.cl:
            if len(steps) != p["T"]:
                self.V("C11.a", f"executed {len(steps)} steps for total_timesteps={p['T']}")
            if env.protocol:
                self.V("C11.c", f"env.step() after the episode had ended without reset: {env.protocol[0]}")
        if "C14" in self.cl:
            getattr(self, "check_" + algo)(steps, out)
        if "C13.c" in self.cl and p["epsilon"] == 0.0 and algo in ("q_learning", "dynaq", "sarsa", "monte_carlo"):
            self.check_greedy(steps)
        if "C13.d" in self.cl and p["epsilon"] == 1.0:
            self.check_eps1(steps)
        return self.finish(env)

    def finish(self, env):
        p = self.plan
        self.res.signature = "|".join(str(x) for x in (p["algo"], p["n_states"], p["n_actions"], p["T"], p["epsilon"], p["gamma"], p["lr"],
                                                      len(p["script"]), ",".join(sorted(self.res.faults))))
        return self.res

    # ---------------------------------------------------------------- oracles
    def only_visited_changed(self, q0, q, steps, name="table"):
        visited = {(s["s"], s["a"]) for s in steps}
        d = np.argwhere(np.asarray(q0, dtype=np.float32) != np.asarray(q, dtype=np.float32))
        extra = [tuple(x) for x in d if tuple(x) not in visited]
        if extra:
            self.V("C14.entry", f"{name}: entries {extra[:4]} changed although they were never visited (visited {sorted(visited)[:6]})")
            return False
        return True

    def check_q_learning(self, steps, out):
        p = self.plan
        ref, _ = self.ref_q(steps, p["q0"])
        if not self.only_visited_changed(p["q0"], out[0], steps):
            return
        if not close(out[0], ref):
            self.V("C14.a", f"returned table differs from the Q-learning reference after {len(steps)} steps: max |diff| {np.abs(out[0] - ref).max():.4g}")
        else:
            self.res.probe("q_learning_histories")

    def check_dynaq(self, steps, out):
        p = self.plan
        if p["n_planning_steps"] == 0:
            ref, _ = self.ref_q(steps, p["q0"])
            if not close(out[0], ref):
                ref2, _ = self.ref_q(steps, p["q0"], terminal_aware=False)
                why = " (it equals the update that bootstraps from the successor of a TERMINATED transition)" if close(out[0], ref2) else ""
                self.V("C14.e", f"Dyna-Q without planning differs from the greedy-successor reference after {len(steps)} steps: max |diff| {np.abs(out[0] - ref).max():.4g}{why}")
            else:
                self.res.probe("dynaq_direct_histories")
        else:
            self.check_dynaq_planning(steps, out)
        self.check_dynaq_model(steps)
        self.check_dynaq_training_model(steps)

    def check_dynaq_training_model(self, steps):
        """The model train_dynaq hands to planning() after each real step equals the empirical
        successor frequencies and mean rewards of the transitions observed so far."""
        p = self.plan
        models = getattr(self, "models", [])
        if len(models) != len(steps):
            self.res.unchecked += 1
            return
        nS, nA = p["n_states"], p["n_actions"]
        cnt = np.zeros((nS, nA, nS))
        rsum = np.zeros((nS, nA, nS))
        for s, (T, R) in zip(steps, models):
            cnt[s["s"], s["a"], s["s1"]] += 1
            rsum[s["s"], s["a"], s["s1"]] += s["r"]
            tot = cnt.sum(-1, keepdims=True)
            freq = np.divide(cnt, tot, out=np.zeros_like(cnt), where=tot > 0)
            mean = np.divide(rsum, cnt, out=np.zeros_like(cnt), where=cnt > 0)
            if not close(T, freq, 1e-5, 1e-6):
                bad = np.argwhere(~np.isclose(T, freq, 1e-5, 1e-6))[0]
                self.V("C14.model", f"inside train_dynaq after {s['i'] + 1} transitions: learned P{tuple(int(x) for x in bad)}={T[tuple(bad)]:.4g}, empirical frequency {freq[tuple(bad)]:.4g}", site="train_dynaq")
                return
            if not close(R, mean, 1e-5, 1e-6):
                bad = np.argwhere(~np.isclose(R, mean, 1e-5, 1e-6))[0]
                self.V("C14.model", f"inside train_dynaq after {s['i'] + 1} transitions: learned reward R{tuple(int(x) for x in bad)}={R[tuple(bad)]:.4g}, empirical mean reward {mean[tuple(bad)]:.4g} (observed {int(cnt[tuple(bad)])} times)", site="train_dynaq")
                return
        self.res.probe("dynaq_training_model_histories")

    def check_dynaq_planning(self, steps, out):
        """n_planning_steps=1, single real step: the result must be reachable by the direct
        update followed by one greedy-successor update of a buffered (s,a) with the model's
        arg-max successor and mean reward."""
        p = self.plan
        if len(steps) != 1:
            self.res.unchecked += 1
            return
        q, _ = self.ref_q(steps, p["q0"])
        s = steps[0]
        # model after one transition: successor s1 with prob 1, reward r
        q2 = q.copy()
        q2[s["s"], s["a"]] += p["lr"] * (s["r"] + p["gamma"] * q[s["s1"]].max() - q[s["s"], s["a"]])
        if not close(out[0], q2):
            # terminal-aware direct update is the only ambiguity: planning itself has no termination info
            self.V("C14.e", f"Dyna-Q (1 planning step) result is not the direct update followed by one model-based greedy-successor update: max |diff| {np.abs(out[0] - q2).max():.4g}")
        else:
            self.res.probe("dynaq_planning_steps")

    def check_dynaq_model(self, steps):
        """Public counter_update / model_update pair under the recorded transition
        history equals empirical frequencies and mean rewards."""
        import jax.numpy as jnp
        from rl_blox.algorithm import dynaq

        p = self.plan
        nS, nA = p["n_states"], p["n_actions"]
        counter = dynaq.Counter(transition_counter=[[[0 for _ in range(nS)] for _ in range(nA)] for _ in range(nS)],
                                reward_history=[[[[] for _ in range(nS)] for _ in range(nA)] for _ in range(nS)])
        model = dynaq.ForwardModel(transition=jnp.zeros((nS, nA, nS)), reward=jnp.zeros((nS, nA, nS)))
        cnt = np.zeros((nS, nA, nS))
        rsum = np.zeros((nS, nA, nS))
        for s in steps:
            counter = dynaq.counter_update(counter, s["s"], s["a"], s["r"], s["s1"])
            model = dynaq.model_update(model, counter, s["s"], s["a"], s["s1"])
            cnt[s["s"], s["a"], s["s1"]] += 1
            rsum[s["s"], s["a"], s["s1"]] += s["r"]
            tot = cnt.sum(-1, keepdims=True)
            freq = np.divide(cnt, tot, out=np.zeros_like(cnt), where=tot > 0)
            mean = np.divide(rsum, cnt, out=np.zeros_like(cnt), where=cnt > 0)
            T = np.asarray(model.transition)
            if not close(T, freq, 1e-5, 1e-6):
                bad = np.argwhere(~np.isclose(T, freq, 1e-5, 1e-6))[0]
                self.V("C14.model", f"after {s['i'] + 1} transitions the learned model P{tuple(bad)}={T[tuple(bad)]:.4g} but the empirical successor frequency is {freq[tuple(bad)]:.4g} (counts for that (s,a): {cnt[bad[0], bad[1]]})", site="dynaq.model_update")
                return
            if not close(np.asarray(model.reward), mean, 1e-5, 1e-6):
                self.V("C14.model", f"after {s['i'] + 1} transitions the learned reward model differs from the empirical mean rewards", site="dynaq.model_update")
                return
        self.res.probe("dynaq_model_histories")

    def check_sarsa(self, steps, out):
        p = self.plan
        if p["epsilon"] == 0.0:
            # greedy successor value is tie independent
            ref, _ = self.ref_q(steps, p["q0"])
            if not self.only_visited_changed(p["q0"], out[0], steps):
                return
            if not close(out[0], ref):
                self.V("C14.b", f"SARSA(epsilon=0) differs from the reference after {len(steps)} steps: max |diff| {np.abs(out[0] - ref).max():.4g}")
            else:
                self.res.probe("sarsa_greedy_histories")
        elif len(steps) == 1:
            s = steps[0]
            q0 = np.array(p["q0"], dtype=np.float64)
            if not self.only_visited_changed(p["q0"], out[0], steps):
                return
            cands = []
            for a1 in range(p["n_actions"]):
                nxt = 0.0 if s["term"] else q0[s["s1"], a1]
                cands.append(q0[s["s"], s["a"]] + p["lr"] * (s["r"] + p["gamma"] * nxt - q0[s["s"], s["a"]]))
            got = float(out[0][s["s"], s["a"]])
            if not any(abs(got - c) <= 2e-5 * (1 + abs(c)) for c in cands):
                self.V("C14.b", f"SARSA single update gives {got}, not lr*(r + gamma*(1-term)*Q[s',a'] - Q[s,a]) for any a' (candidates {cands})")
            else:
                self.res.probe("sarsa_single_steps")
        else:
            self.res.unchecked += 1

    def check_double_q_learning(self, steps, out):
        p = self.plan
        qa0, qb0 = np.array(p["q0"], dtype=np.float64), np.array(p["q0b"], dtype=np.float64)
        if len(steps) > 10:
            self.res.unchecked += 1
            return
        states = [(qa0, qb0)]
        for s in steps:
            nxt = []
            for qa, qb in states:
                for upd in (0, 1):
                    u, o = (qa.copy(), qb) if upd == 0 else (qb.copy(), qa)
                    a1 = int(np.argmax(u[s["s1"]]))
                    nv = 0.0 if s["term"] else o[s["s1"], a1]
                    u[s["s"], s["a"]] += p["lr"] * (s["r"] + p["gamma"] * nv - u[s["s"], s["a"]])
                    nxt.append((u, qb) if upd == 0 else (qa, u))
            # dedupe
            seen, states = set(), []
            for qa, qb in nxt:
                k = (qa.round(9).tobytes(), qb.round(9).tobytes())
                if k not in seen:
                    seen.add(k)
                    states.append((qa, qb))
            if len(states) > 4096:
                self.res.unchecked += 1
                return
        ok = any(close(out[0], qa) and close(out[1], qb) for qa, qb in states)
        if len(steps) == 1:
            s = steps[0]
            ch_a = np.argwhere(np.asarray(p["q0"], dtype=np.float32) != out[0])
            ch_b = np.argwhere(np.asarray(p["q0b"], dtype=np.float32) != out[1])
            if len(ch_a) + len(ch_b) > 1 or any(tuple(x) != (s["s"], s["a"]) for x in list(ch_a) + list(ch_b)):
                self.V("C14.entry", f"double Q-learning single update changed entries table1 {ch_a.tolist()} table2 {ch_b.tolist()}, expected exactly entry {(s['s'], s['a'])} of one table")
                return
        if not ok:
            self.V("C14.c", f"no sequence of table choices reproduces the returned tables after {len(steps)} step(s) with the update lr*(r + gamma*(1-term)*Q_other[s', argmax Q_upd[s']] - Q_upd[s,a]) (first step: s={steps[0]['s']} a={steps[0]['a']} s'={steps[0]['s1']} term={steps[0]['term']})")
        else:
            self.res.probe("double_q_histories")
            if len(steps) == 1 and steps[0]["s"] != steps[0]["s1"]:
                self.res.probe("double_q_single_step_distinct_successor")

    def check_monte_carlo(self, steps, out):
        p = self.plan
        ref_q, ref_n = self.ref_mc(steps, p["q0"])
        if not close(out[1], ref_n, 0, 1e-6):
            self.V("C14.d", f"returned visit counts differ from the reference counts: {np.asarray(out[1]).tolist()} vs {ref_n.tolist()}")
            return
        if not close(out[0], ref_q, 1e-4, 1e-4):
            bad = np.argwhere(~np.isclose(out[0], ref_q, 1e-4, 1e-4))[0]
            self.V("C14.d", f"entry {tuple(bad)} = {out[0][tuple(bad)]:.5g} is not the mean of its every-visit discounted returns {ref_q[tuple(bad)]:.5g} (visits {ref_n[tuple(bad)]})")
        else:
            self.res.probe("monte_carlo_histories")
            if ref_n.max() > 1:
                self.res.probe("monte_carlo_repeated_visits")

    def check_greedy(self, steps):
        """C13.c: epsilon=0 => every action is an arg-max of the reference table in lock-step."""
        p = self.plan
        algo = p["algo"]
        if algo == "monte_carlo":
            # table only changes at episode ends
            q = np.array(p["q0"], dtype=np.float64)
            n = np.zeros_like(q)
            ep = []
            for s in steps:
                row = q[s["s"]]
                if row[s["a"]] < row.max() - 1e-4 * (1 + abs(row.max())):
                    self.V("C13.c", f"step {s['i']}: epsilon=0 but action {s['a']} is not greedy for Q[{s['s']}]={row}")
                    return
                ep.append(s)
                if s["term"] or s["trunc"]:
                    G = 0.0
                    for x in reversed(ep):
                        G = x["r"] + p["gamma"] * G
                        n[x["s"], x["a"]] += 1
                        q[x["s"], x["a"]] += (G - q[x["s"], x["a"]]) / n[x["s"], x["a"]]
                    ep = []
            self.res.probe("tabular_greedy_steps", len(steps))
            return
        _, tables = self.ref_q(steps, p["q0"], terminal_aware=(algo != "dynaq" or True))
        if algo == "dynaq" and p["n_planning_steps"] > 0:
            return
        for s, q in zip(steps, tables):
            row = q[s["s"]]
            if row[s["a"]] < row.max() - 1e-4 * (1 + abs(row.max())):
                self.V("C13.c", f"step {s['i']}: epsilon=0 but action {s['a']} is not greedy for the current estimates Q[{s['s']}]={row}")
                return
        self.res.probe("tabular_greedy_steps", len(steps))

    def check_eps1(self, steps):
        """C13.d: epsilon=1 => same seed, different tables => identical actions."""
        p = self.plan
        env2 = self.env()
        q_alt = (-np.asarray(p["q0"], dtype=np.float64) * 3.0 + 1.0).tolist()
        qb_alt = (np.asarray(p["q0b"], dtype=np.float64)[::-1]).tolist()
        self.train(env2, q_alt, qb_alt)
        a1 = [s["a"] for s in steps]
        a2 = [s["a"] for s in env2.steps()]
        if a1 != a2:
            self.V("C13.d", f"epsilon=1: actions depend on the value table (same seed, different tables): {a1[:12]} vs {a2[:12]}")
        else:
            self.res.probe("eps1_twin_runs")
            self.res.extra["eps1_actions"] = a1[:200]
            self.res.extra["n_actions"] = p["n_actions"]


def execute(plan):
    return TabRun(plan).run()
