"""Plan generation for TrainSim-based checks (pure functions of the rng)."""
from .simenv import make_script
from .trainsim import ADAPTERS


def env_cfg(rng, adapter, T):
    ad = ADAPTERS[adapter]
    bounds = rng.choice([(-1.0, 1.0), (-1.0, 1.0), (-2.0, 2.0), (0.5, 3.0), (-1e-3, 1e-3), (-1e3, 1e3), ([-1.0, 0.0], [2.0, 0.25])])
    act_dim = rng.choice([1, 1, 2])
    low, high = bounds
    if isinstance(low, list):
        act_dim = len(low)
    e = {
        "script": make_script(rng, T),
        "obs_dim": rng.choice([1, 2, 3]),
        "act_dim": act_dim,
        "discrete": rng.choice([2, 3]) if (ad.discrete or getattr(ad, "force_discrete", False) or (ad.name in ("reinforce", "actor_critic", "a2c") and rng.random() < 0.4)) else 0,
        "low": low, "high": high,
        "tail_len": rng.choice([1, 3, 7]), "tail_end": rng.choice(["term", "trunc"]),
        "space_seed": rng.randrange(2**31),
        "max_steps": 4 * T + 200,
    }
    return e


def sanitize_parts(name, cfg, e):
    """Batches of a single row are rejected loudly by the on-policy losses (chex shape assertion after squeeze); that is
    the "loud rejection" C12 allows, so such datasets are never generated (also not by script surgery or minimisation)."""
    if name in ("reinforce", "actor_critic"):
        if cfg.get("train_after_episode"):
            for ep in e["script"]:
                ep["len"] = max(2, ep["len"])
            e["tail_len"] = max(2, e["tail_len"])
        else:
            cfg["steps_per_update"] = max(2, cfg["steps_per_update"])
    if name == "a2c" and cfg["steps_per_update"] * cfg["num_envs"] < 2:
        cfg["steps_per_update"] = 2


def sanitize(plan):
    if "adapter" in plan and "cfg" in plan and "env" in plan:
        sanitize_parts(plan["adapter"], plan["cfg"], plan["env"])
    return plan


def base_plan(rng, prop, clauses, adapter, T=None):
    ad = ADAPTERS[adapter]
    T = T or rng.choice([12, 20, 30, 45])
    e = env_cfg(rng, adapter, T)
    cfg = ad.cfg(rng, e, T)
    if rng.random() < 0.5 and len(e["script"]) >= 3:
        # half of the plans meet every kind of episode end early (short runs must see termination, truncation AND both at once)
        kinds = ["term", "trunc", "both"]
        rng.shuffle(kinds)
        for ep, k in zip(e["script"], kinds):
            ep["end"] = k
            ep["len"] = min(ep["len"], rng.choice([1, 2, 3, 4]))
    if ad.vector:
        e["scripts"] = [make_script(rng, T) for _ in range(cfg["num_envs"])]
        for i, sc in enumerate(e["scripts"]):
            # every kind of episode end occurs early in some parallel environment (short runs must meet truncation AND termination)
            sc[0]["end"] = ["trunc", "term", "both"][(i + cfg["num_envs"]) % 3]
            sc[0]["len"] = min(sc[0]["len"], rng.choice([1, 2, 3]))
    if ad.name == "ppo":
        T = cfg["iterations"] * cfg["batch_size"] * cfg["num_envs"]
    sanitize_parts(ad.name, cfg, e)
    plan = {
        "check": prop, "clauses": clauses, "adapter": adapter, "seed": rng.randrange(2**31),
        "env": e, "cfg": cfg, "logger": rng.random() < 0.7, "supply_targets": rng.random() < 0.5,
        "supply_buffer": True, "start_step": 0, "monitor": False,
        "chain": [{"total_timesteps": T, "total_episodes": None}],
    }
    return plan


def exact_collection_budget(rng, plan):
    """On-policy routines collect in whole datasets (episodes until >= steps_per_update steps, or one episode with
    train_after_episode; A2C: steps_per_update x num_envs). Make the budget end EXACTLY at a dataset boundary (the
    coincidence in which an off-by-one in the loop condition starts one collection too many)."""
    name, cfg, e = plan["adapter"], plan["cfg"], plan["env"]
    if name == "a2c":
        k = rng.choice([1, 2, 3])
        plan["chain"][-1]["total_timesteps"] = k * cfg["steps_per_update"] * cfg["num_envs"]
        return plan
    if name not in ("reinforce", "actor_critic"):
        return plan
    lens = [ep["len"] for ep in e["script"]] + [e["tail_len"]] * 50
    bounds, acc, cur = [], 0, 0
    for L in lens:
        acc += L
        cur += L
        if cfg.get("train_after_episode") or cur >= cfg["steps_per_update"]:
            bounds.append(acc)
            cur = 0
        if len(bounds) >= 4:
            break
    plan["chain"][-1]["total_timesteps"] = rng.choice(bounds[:4])
    return plan


def boundary_coincidences(rng, plan):
    """Bias the episode script so that an episode ends exactly at a boundary the
    configuration defines (warm-up end, ring wrap, budget end)."""
    cfg = plan["cfg"]
    T = plan["chain"][-1]["total_timesteps"]
    targets = [T - 1, T - 2]
    if "learning_starts" in cfg:
        targets += [cfg["learning_starts"] - 1, cfg["learning_starts"]]
    if "buffer_size" in cfg:
        targets += [cfg["buffer_size"] - 1, cfg["buffer_size"]]
    if "batch_size" in cfg:
        targets += [cfg["batch_size"], cfg["batch_size"] + 1]
    tgt = rng.choice([t for t in targets if t >= 0] or [0])
    # rebuild the script so that some episode's last step has index tgt
    script = plan["env"]["script"]
    acc = 0
    out = []
    for ep in script:
        if acc <= tgt < acc + ep["len"]:
            L = tgt - acc + 1
            ep = dict(ep, len=L)
            out.append(ep)
            acc += L
            out += script[len(out):]
            break
        out.append(ep)
        acc += ep["len"]
    plan["env"]["script"] = out
    return sanitize(plan)
