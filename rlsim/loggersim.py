"""LoggerSim: MemoryLogger / StandardLogger / OrbaxCheckpointer / LoggerList under
planned call histories and a simulated clock, against a list reference.

Clock seam: the module attribute `time` of rl_blox.logging.logger and
rl_blox.logging.checkpointer is replaced (for the duration of a run) by SimClock,
which advances by scripted amounts per read, can jump forward and backward, and
logs every read with the index of the operation in progress.
"""
from __future__ import annotations

import os
import shutil
import tempfile

import numpy as np

from .core import Result, raised_by_code_under_test
from .probes import state_hash


class SimClock:
    def __init__(self, t0, incs):
        self.now = float(t0)
        self.incs = incs
        self.n = 0
        self.op = -1
        self.reads = {}  # op index -> [values]

    def time(self):
        v = self.now
        self.reads.setdefault(self.op, []).append(v)
        self.now += self.incs[self.n % len(self.incs)]
        self.n += 1
        return v

    # anything else the modules might use from `time`
    def perf_counter(self):
        return self.time()

    def monotonic(self):
        return self.time()

    def sleep(self, s):
        self.now += s


def make_module(seed, key="q"):
    from flax import nnx
    from rl_blox.blox.function_approximator.mlp import MLP

    net = MLP(2, 1, [3], "relu", nnx.Rngs(seed))
    if key == "policy":
        # a module with non-Param variables (action_scale / action_bias), asymmetric bounds
        import gymnasium as gym
        from rl_blox.blox.function_approximator.policy_head import DeterministicTanhPolicy

        return DeterministicTanhPolicy(net, gym.spaces.Box(np.float32([-0.5]), np.float32([2.0]), (1,), np.float32))
    return net


def bump(module, amount):
    import jax
    from flax import nnx

    st = nnx.state(module, nnx.Param)
    st = jax.tree_util.tree_map(lambda x: x + amount, st)
    nnx.update(module, st)


class LogRun:
    def __init__(self, plan):
        self.plan = plan
        self.res = Result()

    def V(self, clause, site, detail):
        self.res.violate(clause, site, detail)

    def run(self):
        import rl_blox.logging.checkpointer as ckmod
        import rl_blox.logging.logger as lgmod

        p = self.plan
        clock = SimClock(p["clock"]["t0"], p["clock"]["incs"])
        old = (lgmod.time, ckmod.time)
        scratch = tempfile.mkdtemp(prefix="rlsim_log_", dir=os.environ.get("VERIF_SCRATCH"))
        lgmod.time = clock
        ckmod.time = clock
        try:
            self.body(lgmod, ckmod, clock, scratch)
        finally:
            lgmod.time, ckmod.time = old
            shutil.rmtree(scratch, ignore_errors=True)
        kinds = sorted({o[0] for o in p["ops"]})
        self.res.signature = "|".join([",".join(p["loggers"]), str(p["list"]), ",".join(kinds), str(sorted(p["freq"].items())),
                                       ",".join(sorted(self.res.faults)), str(len(p["ops"]))])
        return self.res

    def body(self, lgmod, ckmod, clock, scratch):
        p = self.plan
        res = self.res
        members = []
        for i, kind in enumerate(p["loggers"]):
            if kind == "memory":
                members.append(("memory", lgmod.MemoryLogger()))
            elif kind == "standard":
                members.append(("standard", lgmod.StandardLogger(checkpoint_dir=os.path.join(scratch, f"std{i}"), verbose=0)))
            elif kind == "orbax":
                members.append(("orbax", ckmod.OrbaxCheckpointer(checkpoint_dir=os.path.join(scratch, f"orb{i}"), verbose=0)))
        top = lgmod.LoggerList([m for _, m in members]) if (p["list"] or len(members) > 1) else members[0][1]
        site = "LoggerList" if top is not members[0][1] else type(members[0][1]).__name__
        modules = {}
        # reference
        n_eps, n_steps = 0, 0
        stats = {}  # key -> list of (value, episode, step, t or None, op)
        define_ops = []
        freq = {}
        last_step = {}
        epoch_n = {}
        exp_orbax = {}  # key -> list of (op, step, hash)
        exp_std = {}
        hash_at = {}
        armed = False
        cadence_valid = True
        for i, op in enumerate(p["ops"]):
            clock.op = i
            k = op[0]
            try:
                if k == "define_experiment":
                    top.define_experiment("SimEnv", "sim", {"a": 1})
                    define_ops.append(i)
                elif k == "define_freq":
                    key, f = op[1], op[2]
                    late_ok = all(kd != "orbax" for kd, _ in members)  # "every interval-th recorded epoch" is unambiguous for the standard logger
                    if key in freq or (key in epoch_n and not late_ok):
                        continue  # Orbax: only defined before the first record of that key (see DESIGN §4 C20); never re-defined
                    if key in epoch_n:
                        res.fault("frequency_defined_after_records")
                    top.define_checkpoint_frequency(key, f)
                    freq[key] = f
                    last_step[key] = 0
                    exp_orbax[key] = []
                    exp_std[key] = []
                elif k == "start":
                    top.start_new_episode()
                    n_eps += 1
                elif k == "stop":
                    top.stop_episode(op[1])
                    n_steps += op[1]
                    stats.setdefault("episode_length", []).append((op[1], n_eps, n_steps, None, i))
                elif k == "stat":
                    _, key, value, ep, st, t = op
                    kw = {}
                    if ep is not None:
                        kw["episode"] = ep
                    if st is not None:
                        kw["step"] = st
                    if t is not None:
                        kw["t"] = t
                    top.record_stat(key, value, **kw)
                    stats.setdefault(key, []).append((value, n_eps if ep is None else ep, n_steps if st is None else st, t, i))
                elif k == "epoch":
                    _, key, mutate, st = op
                    if key not in modules:
                        modules[key] = make_module(len(modules) + 1, key)
                    if mutate:
                        bump(modules[key], mutate)
                    eff = n_steps if st is None else st
                    if key in last_step and eff < last_step[key]:
                        continue  # decreasing steps are outside the property's quantifier
                    if key not in freq and eff < last_step.get(("nofreq", key), 0):
                        continue
                    kw = {} if st is None else {"step": st}
                    h = state_hash(modules[key])
                    injected = False
                    try:
                        top.record_epoch(key, modules[key], **kw)
                    except OSError as e:
                        if "injected" not in str(e):
                            raise
                        injected = True
                        res.fault("checkpoint_write_failed")
                    epoch_n[key] = epoch_n.get(key, 0) + 1
                    if injected:
                        # the failed record may or may not have updated counters before raising; stop the cadence
                        # comparison for this run and only demand that every LISTED path is restorable
                        cadence_valid = False
                        continue
                    if key in freq:
                        f = freq[key]
                        if eff // f > last_step[key] // f:
                            exp_orbax[key].append((i, eff, h))
                            if (eff - last_step[key]) >= 2 * f:
                                res.fault("jump_over_several_intervals")
                            if eff % f == 0:
                                res.fault("exact_multiple")
                        elif eff == last_step[key]:
                            res.fault("repeated_step")
                        if epoch_n[key] % f == 0:
                            exp_std[key].append((i, epoch_n[key], h))
                        last_step[key] = eff
                    else:
                        last_step[("nofreq", key)] = eff
                        res.fault("epoch_without_frequency")
                elif k == "fail_next_save":
                    # disk fault: the next checkpoint write of every checkpointing member raises once (ENOSPC)
                    import errno

                    for kind_m, m in members:
                        if kind_m == "memory" or getattr(m, "checkpointer", None) is None:
                            continue
                        cp = m.checkpointer
                        if getattr(cp, "_rlsim_armed", False):
                            continue
                        orig_save = cp.save

                        def failing(*a, _cp=cp, _orig=orig_save, **kw):
                            _cp.save = _orig
                            _cp._rlsim_armed = False
                            raise OSError(errno.ENOSPC, "No space left on device (injected)")

                        cp.save = failing
                        cp._rlsim_armed = True
                    armed = True
                elif k == "clock":
                    if op[1] == "back":
                        clock.now -= op[2]
                        res.fault("clock_jump_backward")
                    else:
                        clock.now += op[2]
                        res.fault("clock_jump_forward")
            except Exception as e:
                if not raised_by_code_under_test(e):
                    raise
                self.V("C20.raise", site, f"op {i} {op[:2]}: {type(e).__name__}: {e}")
                return
            res.simt("ops")
            # counters after every op (C20.b)
            for kind, m in members:
                if m.n_episodes != n_eps or m.n_steps != n_steps:
                    self.V("C20.b", type(m).__name__, f"after op {i} {op[:2]}: n_episodes/n_steps = {m.n_episodes}/{m.n_steps}, reference {n_eps}/{n_steps}")
                    return
            if top.n_episodes != n_eps:
                self.V("C20.b", site, f"after op {i}: logger list reports n_episodes={top.n_episodes}, reference {n_eps}")
                return
        res.simt("sim_seconds", int(clock.now - p["clock"]["t0"]))
        res.log.add("counters", n_eps, n_steps)
        # C20.a statistics
        starts = [r for d in define_ops for r in clock.reads.get(d, [])] or [0.0]
        if not define_ops:
            res.fault("record_without_define_experiment")
        for kind, m in members:
            if kind == "orbax":
                continue
            name = type(m).__name__
            for key, rows in stats.items():
                try:
                    xe, y = m.get_stat(key, "episode")
                    xs, _ = m.get_stat(key, "step")
                    xt, _ = m.get_stat(key, "time")
                except Exception as e:
                    if not raised_by_code_under_test(e):
                        raise
                    self.V("C20.a", name, f"get_stat({key!r}) raised {type(e).__name__}: {e}")
                    return
                res.log.add("stat", name, key, np.asarray(xe), np.asarray(xs), np.asarray(y, dtype=float))
                if len(y) != len(rows):
                    self.V("C20.a", name, f"{key!r}: {len(y)} records retrievable, {len(rows)} recorded")
                    return
                for j, (value, ep, st, t, opi) in enumerate(rows):
                    if float(y[j]) != float(value) or int(xe[j]) != ep or int(xs[j]) != st:
                        self.V("C20.a", name, f"{key!r} record {j}: got (value, episode, step) = ({y[j]}, {xe[j]}, {xs[j]}), recorded ({value}, {ep}, {st}) in op {opi}")
                        return
                    if t is not None:
                        if float(xt[j]) != float(t):
                            self.V("C20.a", name, f"{key!r} record {j}: time {xt[j]} != explicit t {t}")
                            return
                    else:
                        reads = clock.reads.get(opi, [])
                        prev = [d for d in define_ops if d < opi]
                        starts = clock.reads.get(prev[-1], []) if prev else [0.0]
                        ok = any(float(xt[j]) == r - s for r in reads for s in starts)
                        if not ok:
                            self.V("C20.a", name, f"{key!r} record {j}: time field {xt[j]} is not (a clock read made during that call {reads}) - start_time (candidates {starts[:3]})")
                            return
                        res.probe("implicit_time_checked")
                res.probe("stat_series_checked")
        # C20.c members agree
        mem = [(k, m) for k, m in members if k != "orbax"]
        if len(mem) > 1:
            for key in stats:
                a = [np.asarray(mem[0][1].get_stat(key, x)[0]) for x in ("episode", "step")] + [np.asarray(mem[0][1].get_stat(key)[1], dtype=float)]
                for _, m in mem[1:]:
                    b = [np.asarray(m.get_stat(key, x)[0]) for x in ("episode", "step")] + [np.asarray(m.get_stat(key)[1], dtype=float)]
                    if not all(np.array_equal(x, y) for x, y in zip(a, b)):
                        self.V("C20.c", "LoggerList", f"members hold different records for {key!r}")
                        return
            res.probe("list_members_compared")
        # C20.d / C20.e checkpoints
        import orbax.checkpoint as ocp
        from flax import nnx

        for kind, m in members:
            if kind == "memory":
                continue
            name = type(m).__name__
            exp = exp_orbax if kind == "orbax" else exp_std
            paths_all = []
            if not cadence_valid:
                # after an injected write failure only "every listed path is restorable" is demanded
                for key in sorted(getattr(m, "checkpoint_path", {})):
                    for path in m.checkpoint_path[key]:
                        target = make_module(0, key)
                        try:
                            if not os.path.exists(path):
                                raise FileNotFoundError(path)
                            ocp.StandardCheckpointer().restore(path, nnx.state(target) if kind == "orbax" else nnx.split(target)[1])
                        except Exception as e:
                            self.V("C20.e", name, f"{key!r}: after a failed checkpoint write the path {os.path.basename(path.rstrip('/'))} is listed but not restorable ({type(e).__name__})")
                            return
                        res.probe("checkpoints_restored_after_write_fault")
                continue
            for key in sorted(set(list(exp) + list(getattr(m, "checkpoint_path", {})))):
                got = list(m.checkpoint_path.get(key, []))
                want = exp.get(key, [])
                res.log.add("ckpt", name, key, len(got), [w[1] for w in want])
                if len(got) != len(want):
                    what = "steps" if kind == "orbax" else "epoch counts"
                    self.V("C20.d", name, f"{key!r} (interval {freq.get(key)}): {len(got)} checkpoints written, the reference expects {len(want)} at {what} {[w[1] for w in want]}")
                    return
                for path, (opi, at, h) in zip(got, want):
                    if not os.path.exists(path):
                        self.V("C20.e", name, f"{key!r}: listed path {os.path.basename(path.rstrip('/'))} does not exist")
                        return
                    paths_all.append(os.path.normpath(path))
                    target = make_module(0, key)
                    try:
                        restored = ocp.StandardCheckpointer().restore(path, nnx.state(target) if kind == "orbax" else nnx.split(target)[1])
                    except Exception as e:
                        self.V("C20.e", name, f"{key!r}: path written at op {opi} is not restorable: {type(e).__name__}: {str(e)[:200]}")
                        return
                    nnx.update(target, restored)
                    if state_hash(target) != h:
                        self.V("C20.e", name, f"{key!r}: checkpoint written at op {opi} ({at}) restores to a different state than the module had at that record")
                        return
                    res.probe("checkpoints_restored")
            if len(set(paths_all)) != len(paths_all):
                self.V("C20.e", name, "two records share one checkpoint path")
                return
            for key in epoch_n:
                if key not in freq and m.checkpoint_path.get(key):
                    self.V("C20.d", name, f"{key!r} has no defined frequency but checkpoints were written")
                    return
            # nothing else on disk
            d = m.checkpoint_dir
            on_disk = sorted(os.path.normpath(os.path.join(d, x)) for x in os.listdir(d)) if os.path.isdir(d) else []
            if sorted(paths_all) != on_disk:
                self.V("C20.d", name, f"{len(on_disk)} checkpoint directories on disk, {len(paths_all)} listed")
                return


def execute(plan):
    return LogRun(plan).run()


def make_plan(rng):
    loggers = rng.choice([["memory"], ["standard"], ["orbax"], ["memory", "standard"], ["memory", "orbax"], ["standard", "orbax"],
                          ["memory", "standard", "orbax"], ["memory", "memory"]])
    keys = ["q loss", "return", "x"][: rng.choice([1, 2, 3])]
    mkeys = ["q", "policy"][: rng.choice([1, 2])]
    freq = {k: rng.choice([1, 2, 3, 5, 7, 10]) for k in mkeys if rng.random() < 0.8}
    ops = []
    if rng.random() < 0.8:
        ops.append(["define_experiment"])
    late = {}
    for k, f in freq.items():
        if "orbax" not in loggers and rng.random() < 0.3:
            late[k] = f
        else:
            ops.append(["define_freq", k, f])
    n = rng.choice([5, 10, 20, 40, 80])
    has_ckpt = any(l in ("standard", "orbax") for l in loggers)
    n_epochs = 0
    cur = {k: 0 for k in mkeys}
    nsteps = 0
    step_style = rng.choice(["implicit", "explicit", "mixed"])
    disk_faults = rng.random() < 0.25
    for it in range(n):
        r = rng.random()
        if late and it >= n // 3:
            k0 = sorted(late)[0]
            ops.append(["define_freq", k0, late.pop(k0)])
        if r < 0.15:
            ops.append(["start"])
        elif r < 0.30:
            L = rng.choice([1, 2, 3, 5, 10])
            ops.append(["stop", L])
            nsteps += L
        elif r < 0.6:
            ops.append(["stat", rng.choice(keys), rng.choice([0.0, 1.5, -2.0, 3.25, 1e6]),
                        rng.choice([None, None, 0, 3, 7]), rng.choice([None, None, 0, 5, 12]), rng.choice([None, None, None, 0.0, 42.5])])
        elif r < 0.92 and (n_epochs < 25 or not has_ckpt):
            k = rng.choice(mkeys)
            if step_style == "implicit" or (step_style == "mixed" and rng.random() < 0.5):
                st = None
                cur[k] = max(cur[k], nsteps)
                if nsteps < cur[k]:
                    continue
            else:
                cur[k] = max(cur[k], 0) + rng.choice([0, 0, 1, 1, 2, 3, 5, 11, 23])
                st = cur[k]
            ops.append(["epoch", k, rng.choice([0, 1, 1]), st])
            n_epochs += 1
        elif r < 0.96:
            ops.append(["clock", rng.choice(["fwd", "back"]), rng.choice([0.5, 10.0, 3600.0, 1e6])])
        elif r < 0.975 and has_ckpt and disk_faults:
            ops.append(["fail_next_save"])
        else:
            ops.append(["define_experiment"])
    return {"loggers": loggers, "list": rng.random() < 0.3, "freq": freq, "ops": ops,
            "clock": {"t0": rng.choice([0.0, 1.7e9, 12345.5]), "incs": [rng.choice([0.0, 0.001, 0.5, 2.0]) for _ in range(rng.choice([1, 3]))]}}
