#!/bin/bash
# Offline setup: nothing to install; verify the interpreter and imports, create output dirs.
set -e
cd "$(dirname "$0")"
mkdir -p evidence replays .cache/jax
JAX_PLATFORMS=cpu /venv/bin/python - <<'PY'
import sys
sys.path.insert(0, "/repo")
import numpy, jax, flax, optax, gymnasium, orbax.checkpoint
import rl_blox
print("setup ok: rl_blox from", rl_blox.__file__)
PY
