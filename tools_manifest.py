"""Regenerates MANIFEST.json from the table below (kept in one place so the
manifest is always valid and in step with the checks that exist)."""
import json, os
HERE = os.path.dirname(os.path.abspath(__file__))
props = [json.loads(l) for l in open(os.path.join(HERE, "properties.jsonl"))]

CLAIMED = {
 "C02": dict(level="exploration", engine="BufferSim", design="§4 C02",
   text="Seeded search over operation histories (add/sample/enumerate/select/len/pickle-restart) of the real buffer classes with the generator behind a seam, checked operation by operation against a list reference; every valid slot is enumerated through the generator stub. Sampling of histories, not proof.",
   note="Trusted: numpy, jax.numpy.asarray, pickle. Generator stub answers integers/uniform/choice only.",
   technique="deterministic simulation: seeded operation/fault histories vs reference model, generator seam"),
 "C04": dict(level="exploration", engine="BufferSim", design="§4 C04",
   text="Seeded search over add histories (terminated / truncated / both, one-step and short episodes, wrap-around) of the sub-trajectory buffers; after plan-chosen operations every admissible start is enumerated through the generator seam for every sampling horizon, with and without intermediates, and every returned window is decoded from unique tags and checked for contiguity, single episode, no truncated step, written rows only, reduced view = full view.",
   note="Rows after the first terminated step are only required to be stored rows. Completeness of the admissible set is a probe, not a verdict.",
   technique="deterministic simulation: seeded operation histories, exhaustive start enumeration through generator seam, tag oracle"),
 "C08": dict(level="exploration", engine="BufferSim", design="§4 C08",
   text="Seeded search over add / sample / update_priority / reset_max / restart / select-task histories of LAP, PER, prioritised sub-trajectory buffer and their multi-task wrapper; the proportional law is decided exactly (order-free, +-2 counts on an equidistant grid of variates fed through the generator seam), and priority bookkeeping is decided through that same law after every operation; importance weights against the closed form. 2 % of the plans are training runs (TD3+LAP, PER-DDQN, TD7, MR.Q) with a recording buffer: positive finite priorities, update directly after sample, lap_priority / per_priority non-decreasing on the |TD| values that flowed.",
   note="Assumes each index's pre-image under the sampler is an interval of the variate. Updates whose batch was overwritten between sample and update are not generated (interpretation, DESIGN §4 C08).",
   technique="deterministic simulation: seeded operation histories, generator-seam variate sweep vs cumulative-interval oracle"),
 "C19": dict(level="fault_enumeration", engine="BufferSim twins + ModuleSim", design="§4 C19",
   text="Fault = restart (serialise, discard, reload) injected at arbitrary prefixes of operation histories: the reloaded buffer and a never-reloaded twin receive the same continuation and must agree bitwise on every observable; the saved original is still checked against the reference. Function approximators (ten module types): real optimiser steps interleaved with save_pickle (+-cpu, also to an already used path) and Orbax checkpoints through LoggerList([OrbaxCheckpointer, StandardLogger]); every file is reloaded and must match the state hash and probe outputs recorded at its save event.",
   note="Torn or failing writes are not injected (the property promises nothing about them). pickle / Orbax / file system are real and trusted.",
   technique="deterministic simulation with restart faults: twin continuation, bitwise comparison"),

 "C01": dict(level="exploration", engine="TrainSim", design="§4 C01",
   text="The complete train_* routines run against a scripted environment whose scheduler places episode ends (terminated / truncated, length 1, at warm-up end, ring wrap, budget end); every stored row is matched to the environment's own log through unique observation tags, and the acting module's probe input is compared with the current observation at every env.step. On-policy collectors (REINFORCE, actor-critic, A2C, PPO) are captured through their module-level names and aligned per environment (incl. the prepared policy-gradient arrays); multi-task training through train_smt / train_active_mt checks every per-task buffer against the context active at that step. Sampled schedules, not proof.",
   note="Stored rows are read through the documented `buffer` mapping. SimEnv ignores actions. On-policy collectors and tabular loops are covered by their own plan kinds.",
   technique="deterministic simulation: scripted-environment schedule search over complete training runs, env-log vs stored-transition oracle, probes"),
 "C05": dict(level="exploration", engine="TrainSim", design="§4 C05, Appendix A",
   text="Event-granular frame monitor: every module/optimiser reachable by the harness is hashed at every env event and logged update of simulated training; changed components must be a subset of those the documented schedule trains at that event, optimiser step counters advance by exactly the documented number. Decides the history-shaped consequence of C05, not the per-call statement for arbitrary batches.",
   note="NARROW SLICE: event granularity only. Contamination between two routines scheduled on the same event shows only through optimiser step counters.",
   technique="deterministic simulation: scripted-environment schedule search over complete training runs, bitwise state-hash frame conditions between events"),
 "C06": dict(level="exploration", engine="TrainSim", design="§4 C06, Appendix A",
   text="Target / online parameter leaves are snapshotted at every env event and logged update of simulated training with tau in {0,0.005,0.3,1} and delays 1-7: scheduled soft updates must satisfy the Polyak recurrence (4e-6 rel., exact for tau 0/1), hard updates bitwise equality (TD7 chain link by link), all other intervals bitwise constancy; no shared nnx.Variable between target and online; twin runs with target updates neutralised (tau=0 / no sync) decide that the update leaves the online networks bit-identical; resume chains decide that the cadence continues from the returned counter.",
   note="Plans include supplied targets that differ from the online networks and one-sided target supply (a spurious copy / re-clone is invisible while target == online). Targets created inside a routine are observable from their first record_epoch. Arbitrary parameter trees / layer types beyond those the routines build are not generated.",
   technique="deterministic simulation: scripted-environment schedule search over complete training runs, recurrence and frame oracles on parameter snapshots"),
 "C10": dict(level="exploration", engine="TrainSim", design="§4 C10",
   text="Simulated training of DDPG, TD3, TD3+LAP, TD7, MR.Q, PETS with adversarial Box bounds, noise and noise-clip settings and saturating policies: the environment checks every received action, the target critic's probe yields every smoothed target action (in box, within noise_clip*half-range of the target policy output on the same rows), the PETS reward-model probe yields every CEM candidate; pooled over the tier, standardised un-clipped exploration and target-smoothing perturbations must be standard normal (noise-scale clause).",
   note="Target-action monitor covers TD3, TD3+LAP and TD7; PETS plans include a reward optimum on an action bound with a single CEM iteration. A second additive plan kind gives DDPG / TD3 / TD3+LAP / TD7 an environment behind gymnasium's RescaleAction (a wrapper that changes the action space) with a recording layer outside it: every action passed to that environment must lie in its action space. 'Any network output however large' and the key-determined form of the noise are pure clauses, not decided. SAC is not in the property's list.",
   technique="deterministic simulation: scripted-environment schedule search over complete training runs, env-side bound monitor and module probes"),
 "C11": dict(level="exploration", engine="TrainSim + TabularSim + SchedulerSim", design="§4 C11",
   text="Protocol-checking environment (step after episode end, step counts), budgets, episode limits, starting counters, zero budgets and resume chains fed with the returned counter; parameter snapshots at the warm-up boundary; returned counter = start + executed on every exit path; continued long runs (global_step near 250/500/750/1000), restart at 0 with a re-used buffer; multi-task schedulers (train_smt / train_active_mt / train_uts) with a contract-faithful stub backbone and real backbones: per-task totals = executed steps <= budget; task selectors (round robin, four D-UCB strategies, mapb.DUCB) against a float64 discounted-UCB reference; generate_rollout on terminating and truncating episodes.",
   note="DQN family warm-up gate is `step > batch_size` (the gate named in the anchors). An extra reset after the last episode is allowed.",
   technique="deterministic simulation: scripted-environment schedule search over complete training runs, protocol monitor, step accounting, resume chains"),
 "C13": dict(level="exploration", engine="TrainSim + TabularSim", design="§4 C13",
   text="Loop-level clause only: in simulated DQN-family training every step without a recorded sampler draw must be greedy w.r.t. the live Q-network on the current observation, exploration counts must match the documented schedule (exact Poisson-binomial tails at 1e-9, per run and pooled); tabular loops with epsilon=0 act greedily on the lock-step reference table and with epsilon=1 take table-independent actions (twin runs).",
   note="NARROW SLICE: softmax/Gaussian log-probabilities, entropies and sampling forms are pure single-call relations and are not addressed.",
   technique="deterministic simulation: scripted-environment schedule search over complete training runs, recording sampler + Q probe, twin runs, exact binomial tails"),
 "C14": dict(level="exploration", engine="TabularSim", design="§4 C14",
   text="The real tabular learners run on a scripted discrete environment (scripted, apparently stochastic successors, rewards, starts, episode ends); a float64 numpy reference learner fed from the environment log only must be refined by the returned tables (Q-learning, SARSA, Monte-Carlo, Dyna-Q direct/planning/model); double Q-learning and SARSA(eps>0) by enumerating unobservable coin outcomes on short histories.",
   note="float32 vs float64 tolerance 2e-5 over <= 50 updates.",
   technique="deterministic simulation: scripted transition histories, refinement against executable reference learner"),

 "C15": dict(level="exploration", engine="CheckpointSim + TrainSim", design="§4 C15",
   text="TD7's assessment state machine driven by scripted (episode length, return) histories with the caller-side epoch bookkeeping, against a reference state machine (conservation of released steps, reset, >= vs >, cut-short, single window switch); plus complete train_td7 runs on a scripted environment where released train iterations, 'training steps' records and checkpoint events per iteration are compared with the reference and checkpoint copies with the acting policy.",
   note="TD7 plans include runs limited by total_episodes; the checkpoint must equal the actor as of the start of the iteration in which it is replaced (the assessed policy). 'Crossing the threshold' = epoch_before < threshold <= epoch_after. Episodes ending before learning_starts belong to no window.",
   technique="deterministic simulation: scripted outcome histories vs reference state machine; event-log oracle inside simulated training"),
 "C20": dict(level="exploration", engine="LoggerSim", design="§4 C20",
   text="Call histories (start/stop/record_stat/record_epoch/define_*) on MemoryLogger, StandardLogger, OrbaxCheckpointer and LoggerLists of them under a simulated clock with forward and backward jumps, against a list reference: records, locations, counters, member agreement, checkpoint cadence vs floor(step/interval) crossings (Orbax) / every f-th epoch (standard), every listed path restorable to the state hashed at that record. One disk fault kind is injected (the member's checkpointer.save raises ENOSPC once): afterwards every LISTED path must still be restorable.",
   note="Real Orbax and file system (per-run scratch directory). Decreasing steps and re-definition of a frequency after records are outside the quantifier and not generated. Torn / partial writes are not injected.",
   technique="deterministic simulation: seeded call histories, simulated clock seam with jumps, reference model, restore oracle"),

 "C09": dict(level="fault_enumeration", engine="TwinRun", design="§4 C09",
   text="Every plan is executed in three fresh interpreters: twins with the same plan but different PYTHONHASHSEED, global numpy/random state and (simulated) wall clock must produce bit-identical event logs (actions received by the environment, logged statistics without time fields, MemoryLogger series, stored buffer rows, returned counters, hashes of all returned modules and optimisers); a third run with another seed must differ. Twin B first executes a different configuration of the same routine in the same interpreter (history independence). Covers all train_* routines incl. tabular learners and the multi-task schedulers.",
   note="XLA thread configuration and platform are held fixed (same machine). One plan per routine and configuration; seeds are sampled.",
   technique="deterministic simulation twin runs under perturbation of hash seed, global RNG state and clock"),

 "C03": dict(level="fault_enumeration", engine="TrainSim twin runs + update refinement", design="§4 C03, §9.2",
   text="Decided inside simulated training. (1) Fault injection with twin runs: (a) overwriting the successor observation of every stored terminated transition with another finite stored observation must leave the complete training trace (all logged losses, all actions, final hashes of all modules and optimisers) bit-identical for DQN, Nature-DQN, DDQN, PER-DDQN, DDPG, TD3, TD3+LAP, SAC; (b) permuting the rows of one returned batch must leave that update's logged loss and q mean unchanged to 1e-5 for the losses whose target is a function of the row alone; a control fault on non-terminated rows must change the trace. (2) Refinement: in simulated runs of DQN, Nature-DQN, DDQN, PER-DDQN, DDPG, TD3, TD3+LAP, SAC, TD7 and MR.Q every update's logged loss, q mean, mean / per-sample |TD| (and TD7's SALE loss and tracked value range) must equal a float64 reference of the documented regression onto y = r + (1-terminated)*gamma*bootstrap (max / double-Q selection / clipped double-Q minimum / SAC entropy term / TD7 value clipping / MR.Q n-step return with residual discount and reward scales) computed from a copy of the sampled batch and clones of the networks as they were at that instant of the history; every SALE update of TD7 is replayed with a clone of the real optimiser along the gradient of the documented loss with a gradient-stopped target and must land on the embedding observed at the next sample.",
   note="Value equality is decided on the states the simulated histories reach, not for all inputs. NOT decided: MR.Q's encoder loss value, gradients of the critic losses w.r.t. online parameters, batch size 1.",
   technique="deterministic simulation: twin runs with storage-corruption and batch-reordering faults in the replay-buffer seam; per-update refinement of the recorded training history against a float64 reference model"),
 "C07": dict(level="fault_enumeration", engine="TrainSim twin runs + recurrence refinement", design="§4 C07, §9.2",
   text="Decided inside simulated training. (1) Fault injection with twin runs: rewriting, in the batch returned by one sample_batch call of train_mrq, every field after the first terminated step of each sampled sub-trajectory must leave the complete training trace (critic target/loss, encoder / dynamics / reward / done losses, priorities through later sampling, final hashes) bit-identical; rewriting ONE environment's reward script must leave A2C's advantages and returns of the other environments bit-identical. (2) Refinement against float64 recurrences on what simulated runs produce: A2C's advantages/returns per environment (GAE cut at terminated steps); the advantages PPO's loss receives, per environment over that environment's own rollout segment, and the observations PPO's value bootstrap is computed from (must belong to the same environment); reward-to-go and discount column of every dataset in train_reinforce / train_ac (incl. integer-typed rewards).",
   note="Recurrences are decided on the sequences the simulated runs produce, not for all inputs. MR.Q's n-step return is part of C03's update refinement. Two genuine defects found and fixed (D12, D13: PPO).",
   technique="deterministic simulation: twin runs with post-terminal data corruption / reward-script faults; refinement of recorded learning signals against float64 reference recurrences"),
 "C16": dict(level="exploration", engine="OptimSim", design="§4 C16",
   text="CMA-ES driven through its public ask/tell functions in train_cmaes order under scripted fitness feedback (ties, huge, constant, adjacent floats; +-inf/NaN as faults), dimensions 1-8, populations, active/default updates, against invariants and float64 recomputation (weights, incumbent, weighted mean of the mu best with tie enumeration, step-size growth bound, covariance symmetry/positive diagonal, flat-parameter round trip); train_cmaes on a scripted environment; CEM primitives and optimize_cem with recording fitness under adversarial bounds/means/variances.",
   note="Covariance positive-definiteness is not demanded (only symmetric, positive diagonal, finite, as the property says). Mean-in-box tolerance 4 float32 ulps (rounding of a convex combination). optimize_cem(return_history=True) with zero iterations raises; outside the property, not generated.",
   technique="deterministic simulation: scripted fitness feedback histories (incl. non-finite faults) vs invariants and recomputed reference"),
}
NA = {
 "C12": "pure value/gradient identities of single loss calls; no schedule, clock, fault or retained state for a simulator to control",
 "C17": "shape/value relations of single forward calls of the PETS model; the only history-shaped clause is a function of the PRNG key alone",
 "C18": "pure numeric contracts (two-hot, Huber, masks, norms, schedules) over real inputs; nothing to schedule or fault",
}
PENDING = "check not built yet in this revision (planned, see DESIGN.md §4); not claimed until it exists"

checks = []
for p in props:
    i = p["id"]
    if i in CLAIMED:
        c = CLAIMED[i]
        checks.append({
            "property_id": i,
            "quick_cmd": f"./check {i} --tier quick",
            "thorough_cmd": f"./check {i} --tier thorough",
            "evidence_file": f"/verif/evidence/{i}.json",
            "replay_cmd_template": f"./check {i} --replay {{path}}",
            "engine": c["engine"],
            "level_claimed": {"category": c["level"], "text": c["text"], "design_ref": c["design"]},
            "level_note": c["note"],
            "technique": c["technique"],
        })
na = [{"property_id": p["id"], "reason": NA.get(p["id"], PENDING)} for p in props if p["id"] not in CLAIMED]
man = {
 "version": 1,
 "setup_cmd": "./setup.sh",
 "hooks": {"guard": "RL_BLOX_VERIF", "enable": "no source hooks: checks import rl_blox from /repo's working tree (RLSIM_REPO, default /repo) and use existing seams only",
           "baseline_off_cmd": "cd /repo && /venv/bin/python -m pytest -ra -q -p no:cacheprovider --timeout=900 --continue-on-collection-errors",
           "source_commits": [], "add_only": True},
 "engines": [
   {"name": "BufferSim", "path": "rlsim/buffersim.py", "serves_properties": ["C02", "C04", "C08", "C19"], "kind_free_text": "operation-history simulator for the replay buffers with generator seam and reference models"},
   {"name": "TrainSim", "path": "rlsim/trainsim.py", "serves_properties": ["C01", "C03", "C05", "C06", "C07", "C09", "C10", "C11", "C13", "C15"], "kind_free_text": "complete training routines against a scripted environment (SimEnv), recording sampler, module probes, snapshot monitors"},
   {"name": "CheckpointSim", "path": "rlsim/ckptsim.py", "serves_properties": ["C15"], "kind_free_text": "TD7 assessment state machine under scripted episode outcomes"},
   {"name": "LoggerSim", "path": "rlsim/loggersim.py", "serves_properties": ["C20"], "kind_free_text": "loggers and checkpointers under planned call histories and a simulated clock"},
   {"name": "OptimSim", "path": "rlsim/optimsim.py", "serves_properties": ["C16"], "kind_free_text": "CMA-ES ask/tell and CEM under scripted fitness feedback"},
   {"name": "TabularSim", "path": "rlsim/tabsim.py", "serves_properties": ["C13", "C14", "C11"], "kind_free_text": "tabular learners against a scripted discrete environment with a float64 reference learner"},
 ],
 "checks": checks,
 "not_applicable": na,
 "notes": "Deterministic simulation with fault injection; see DESIGN.md. Exit codes: 0 held, 1 VIOLATION, 2 harness error.",
}
json.dump(man, open(os.path.join(HERE, "MANIFEST.json"), "w"), indent=1)
print("claimed", [c["property_id"] for c in checks])
