"""Regenerates MANIFEST.json from the table below (kept in one place so the
manifest is always valid and in step with the checks that exist)."""
import json, os
HERE = os.path.dirname(os.path.abspath(__file__))
props = [json.loads(l) for l in open(os.path.join(HERE, "properties.jsonl"))]

CLAIMED = {
 "C02": dict(level="exploration", engine="BufferSim", design="§4 C02",
   text="Seeded search over operation histories (add/sample/enumerate/select/len/pickle-restart) of the real buffer classes with the generator behind a seam, checked operation by operation against a list reference; every valid slot is enumerated through the generator stub. Sampling of histories, not proof.",
   note="Trusted: numpy, jax.numpy.asarray, pickle. Generator stub answers integers/uniform/choice only.",
   technique="deterministic simulation: seeded operation/fault histories vs reference model, generator seam"),
 "C04": dict(level="exploration", engine="BufferSim", design="§4 C04",
   text="Seeded search over add histories (terminated / truncated / both, one-step and short episodes, wrap-around) of the sub-trajectory buffers; after plan-chosen operations every admissible start is enumerated through the generator seam for every sampling horizon, with and without intermediates, and every returned window is decoded from unique tags and checked for contiguity, single episode, no truncated step, written rows only, reduced view = full view.",
   note="Rows after the first terminated step are only required to be stored rows. Completeness of the admissible set is a probe, not a verdict.",
   technique="deterministic simulation: seeded operation histories, exhaustive start enumeration through generator seam, tag oracle"),
 "C08": dict(level="exploration", engine="BufferSim", design="§4 C08",
   text="Seeded search over add / sample / update_priority / reset_max / restart / select-task histories of LAP, PER, prioritised sub-trajectory buffer and their multi-task wrapper; the proportional law is decided exactly (order-free, +-2 counts on an equidistant grid of variates fed through the generator seam), and priority bookkeeping is decided through that same law after every operation; importance weights against the closed form.",
   note="Assumes each index's pre-image under the sampler is an interval of the variate. Updates whose batch was overwritten between sample and update are not generated (interpretation, DESIGN §4 C08).",
   technique="deterministic simulation: seeded operation histories, generator-seam variate sweep vs cumulative-interval oracle"),
 "C19": dict(level="fault_enumeration", engine="BufferSim twins + ModuleSim", design="§4 C19",
   text="Fault = restart (serialise, discard, reload) injected at arbitrary prefixes of operation histories: the reloaded buffer and a never-reloaded twin receive the same continuation and must agree bitwise on every observable; the saved original is still checked against the reference.",
   note="Torn or failing writes are not injected (the property promises nothing about them). pickle / Orbax / file system are real and trusted.",
   technique="deterministic simulation with restart faults: twin continuation, bitwise comparison"),
}
NA = {
 "C12": "pure value/gradient identities of single loss calls; no schedule, clock, fault or retained state for a simulator to control",
 "C17": "shape/value relations of single forward calls of the PETS model; the only history-shaped clause is a function of the PRNG key alone",
 "C18": "pure numeric contracts (two-hot, Huber, masks, norms, schedules) over real inputs; nothing to schedule or fault",
}
PENDING = "check not built yet in this revision (planned, see DESIGN.md §4); not claimed until it exists"

checks = []
for p in props:
    i = p["id"]
    if i in CLAIMED:
        c = CLAIMED[i]
        checks.append({
            "property_id": i,
            "quick_cmd": f"./check {i} --tier quick",
            "thorough_cmd": f"./check {i} --tier thorough",
            "evidence_file": f"/verif/evidence/{i}.json",
            "replay_cmd_template": f"./check {i} --replay {{path}}",
            "engine": c["engine"],
            "level_claimed": {"category": c["level"], "text": c["text"], "design_ref": c["design"]},
            "level_note": c["note"],
            "technique": c["technique"],
        })
na = [{"property_id": p["id"], "reason": NA.get(p["id"], PENDING)} for p in props if p["id"] not in CLAIMED]
man = {
 "version": 1,
 "setup_cmd": "./setup.sh",
 "hooks": {"guard": "RL_BLOX_VERIF", "enable": "no source hooks: checks import rl_blox from /repo's working tree (RLSIM_REPO, default /repo) and use existing seams only",
           "baseline_off_cmd": "cd /repo && /venv/bin/python -m pytest -ra -q -p no:cacheprovider --timeout=900 --continue-on-collection-errors",
           "source_commits": [], "add_only": True},
 "engines": [
   {"name": "BufferSim", "path": "rlsim/buffersim.py", "serves_properties": ["C02", "C04", "C08", "C19"], "kind_free_text": "operation-history simulator for the replay buffers with generator seam and reference models"},
 ],
 "checks": checks,
 "not_applicable": na,
 "notes": "Deterministic simulation with fault injection; see DESIGN.md. Exit codes: 0 held, 1 VIOLATION, 2 harness error.",
}
json.dump(man, open(os.path.join(HERE, "MANIFEST.json"), "w"), indent=1)
print("claimed", [c["property_id"] for c in checks])
