"""Debug helper: ./dbg.py C01 idx [tier]  -> executes plan #idx in-process and prints the result."""
import json, random, sys
from rlsim import core
core.setup_env()
prop, idx = sys.argv[1], int(sys.argv[2])
tier = sys.argv[3] if len(sys.argv) > 3 else "quick"
mod = core.get_check(prop)
seed = core.derive_seed(prop, 0, tier, idx)
plan = mod.make_plan(random.Random(seed), tier, idx)
r = mod.execute(plan).to_json()
print(json.dumps({k: v for k, v in plan.items() if k not in ("env", "ops")}, default=str)[:1500])
print({k: r[k] for k in ("violations", "faults", "probes", "sim", "unchecked", "extra")})
