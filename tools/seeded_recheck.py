#!/usr/bin/env python3
"""Re-run the quick checks of the FINAL machinery against every kept seeded change.

    tools/seeded_recheck.py <lane> <n_lanes> [ids...]

Each lane owns a scratch worktree of /repo's HEAD (/tmp/mut/lane<k>, created here, removed at the end); the patch is applied
there and the checks import rl_blox from it (RLSIM_REPO) - /repo itself is not touched, so several lanes can run side by side.
The checks that ran in the original evaluation are repeated, plus the checks related to the property named in the record.
Result: seeded/<id>/meta.json gets "recheck" = {check: {"exit", "violations"}}, "caught_by_final" and "recheck_head".
"""
import glob, json, os, re, subprocess, sys, time

lane, n_lanes = int(sys.argv[1]), int(sys.argv[2])
only = set(sys.argv[3:])
WT = f"/tmp/mut/lane{lane}"
RELATED = {"C01": ["C01", "C13", "C14", "C04"], "C02": ["C02", "C19", "C01"], "C04": ["C04", "C08"], "C05": ["C05", "C06"], "C06": ["C06", "C05", "C15"], "C08": ["C08"],
           "C09": ["C09"], "C10": ["C10"], "C11": ["C11", "C01", "C14"], "C13": ["C13", "C14"], "C14": ["C14", "C13"], "C15": ["C15"], "C16": ["C16"],
           "C19": ["C19"], "C20": ["C20"], "C03": ["C03", "C07"], "C07": ["C07", "C01", "C04"]}


def sh(cmd, cwd=None, env=None, timeout=3600):
    return subprocess.run(cmd, shell=True, cwd=cwd, env=env, capture_output=True, text=True, timeout=timeout)


head = sh("git -C /repo rev-parse --short HEAD").stdout.strip()
if not os.path.exists(WT):
    assert sh(f"git -C /repo worktree add -q --detach {WT} {head}").returncode == 0
sh("git checkout -q -- .", cwd=WT)
ids = sorted(os.path.basename(d) for d in glob.glob("/verif/seeded/*") if os.path.exists(d + "/meta.json"))
ids = [x for i, x in enumerate(ids) if i % n_lanes == lane and (not only or x in only)]
env = dict(os.environ, RLSIM_REPO=WT, RLSIM_NO_EVIDENCE="1")
for name in ids:
    d = f"/verif/seeded/{name}"
    meta = json.load(open(d + "/meta.json"))
    if meta.get("recheck_head") == head and not os.environ.get("SEEDED_REDO"):
        continue
    if sh(f"git apply {d}/patch.diff", cwd=WT).returncode != 0:
        meta["recheck"] = "patch does not apply to the repaired tree"
        meta["recheck_head"] = head
        json.dump(meta, open(d + "/meta.json", "w"), indent=1)
        print(name, "NOAPPLY", flush=True)
        continue
    v = meta.get("verification", {})
    checks = list(v.get("checks", {}).keys())
    for pid in re.findall(r"C\d\d", name.split("_")[0] + " " + str(meta.get("property", ""))):
        for c in RELATED.get(pid, [pid]):
            if c not in checks:
                checks.append(c)
    res = {}
    try:
        for c in checks:
            t0 = time.time()
            rc = sh(f"./check {c} --tier quick --workers 5", cwd="/verif", env=env)
            res[c] = {"exit": rc.returncode, "violations": [l[:300] for l in rc.stdout.splitlines() if l.startswith("  C") or "HARNESS" in l][:3], "wall_s": round(time.time() - t0, 1)}
    finally:
        sh("git checkout -q -- .", cwd=WT)
    meta["recheck"] = res
    meta["caught_by_final"] = [c for c, r in res.items() if r["exit"] == 1]
    meta["recheck_head"] = head
    json.dump(meta, open(d + "/meta.json", "w"), indent=1)
    print(name, "caught_by", meta["caught_by_final"], {c: r["exit"] for c, r in res.items()}, flush=True)
sh(f"git -C /repo worktree remove --force {WT}")
print("LANEDONE", lane)
