#!/usr/bin/env python3
"""Rewrites DESIGN.md §11 from seeded/*/meta.json."""
import glob, json, os, re
HERE = os.path.dirname(os.path.dirname(os.path.abspath(__file__)))
rows = []
for d in sorted(glob.glob(os.path.join(HERE, "seeded", "*"))):
    if not os.path.exists(os.path.join(d, "meta.json")):
        continue
    m = json.load(open(os.path.join(d, "meta.json")))
    v = m.get("verification", {})
    name = os.path.basename(d)
    title = (m.get("title") or m.get("what") or "")[:90].replace("|", "/")
    files = ", ".join(os.path.basename(f) for f in (m.get("files") or []))[:60]
    needs = (m.get("needs") or "")[:140].replace("|", "/").replace("\n", " ")
    caught_list = m["caught_by_final"] if isinstance(m.get("recheck"), dict) else v.get("caught_by", [])
    caught = ", ".join(caught_list) or "**none**"
    if m.get("recheck") == "patch does not apply to the repaired tree":
        caught += " (patch no longer applies to the repaired tree; result of the original evaluation)"
    first = ""
    for c, r in (m["recheck"] if isinstance(m.get("recheck"), dict) else v.get("checks", {})).items():
        if r.get("exit") == 1 and r.get("violations"):
            first = r["violations"][0].strip().split(":")[0]
            break
    demo = "ok" if v.get("demo_without_patch_passes") and v.get("demo_with_patch_fails") else "?"
    rows.append(f"| {name} | {title} | {files} | {needs} | {demo} | {caught} | {first} |")
n = len(rows)
caught_n = sum(1 for r in rows if "**none**" not in r)
text = f"""## 11. Seeded changes: which checks catch which

Independent sub-agents (seven waves; each given only property text — one property, or in the fifth and seventh wave all claimed ones plus a set of
files — and a scratch worktree) produced {n} changes, each with a demonstration that fails with the change and passes without, and
with the repository's test suite still passing. Each was confirmed here (`tools/seeded_eval.py`: demo with / without the patch in the
scratch worktree, relevant repository tests with the patch), then applied to `/repo`, the listed quick checks were run, and `/repo`
was restored. Because the checks were strengthened between waves, every kept change was finally re-run against the machinery as
committed (`tools/seeded_recheck.py`: patch applied to a scratch worktree of the repaired tree, checks pointed at it through
`RLSIM_REPO`; "recheck" in the record); the column below shows that final result. {caught_n} of {n} are caught by at least one quick check.
`seeded/<id>/meta.json` holds the full record (what was run, exit codes, first violation lines).

| id | change | file(s) | needs to manifest | demo | caught by (quick tier) | first clause |
|---|---|---|---|---|---|---|
""" + "\n".join(rows) + "\n"
p = os.path.join(HERE, "DESIGN.md")
s = open(p).read()
a = s.index("## 11. Seeded changes: which checks catch which")
b = s.index("--------------------------------------------------------------------------------\n## 12.")
notes = ""
m = re.search(r"### 11\.1.*?(?=\n-{20,}\n## 12\.)", s, re.S)
if m:
    notes = "\n" + m.group(0)
s = s[:a] + text + notes + "\n\n" + s[b:]
open(p, "w").write(s)
print(n, "seeded,", caught_n, "caught")

# ---- refactorings (false-alarm test)
rrows = []
for d in sorted(glob.glob(os.path.join(HERE, "refactors", "*"))):
    if not os.path.exists(os.path.join(d, "meta.json")):
        continue
    m = json.load(open(os.path.join(d, "meta.json")))
    stat = (m.get("diffstat") or [""])[0].strip()
    what = str(m.get("what", ""))[:200].replace("|", "/").replace("\n", " ")
    res = ", ".join(f"{c}:{v['exit']}" for c, v in m.get("checks", {}).items())
    rrows.append(f"| {os.path.basename(d)} | {what} | {stat} | {res} | {'quiet' if m.get('all_quiet') else '**ALARM**'} |")
rtext = f"""### 11.2 Behaviour-preserving refactorings (false-alarm test)

Eight further sub-agents each produced two substantial behaviour-preserving refactorings of one area (replay buffers; DDPG/TD3/SAC
loops; loggers/checkpointer/assessment; DQN family + tabular learners; TD7/MR.Q/multi-task; PETS/ensemble/CEM/CMA-ES; on-policy
collectors and updates; losses/embeddings/target updates/serialisation), verified by them to be bit-identical on
fixed seeds. Each patch was applied to `/repo`, the listed quick checks were run (`tools/refactor_eval.py`), `/repo` restored.
Required outcome: every check exits 0. Result: {sum(1 for r in rrows if 'quiet' in r)} of {len(rrows)} quiet. (The first evaluation of R1_2 raised `C01.a` in a
multi-task plan — a harness error of that hour: `train_uts` was given a multi-task buffer it never routes; fixed in the harness,
R1 re-run quiet.) All 16 were run again against the final machinery (refinement oracles of C03 / C07, enlarged tiers); three patches
(R1_1, R1_2, R7_2) no longer applied to the repaired tree and were rebased by hand onto the later fix commits in scratch worktrees
(`rebased_note` in their records): again 16 of 16 quiet.

| id | what was restructured | diffstat | checks run : exit | result |
|---|---|---|---|---|
""" + "\n".join(rrows) + "\n"
s = open(p).read()
s = re.sub(r"### 11\.2 Behaviour-preserving.*?(?=\n-{20,}\n## 12\.)", "", s, flags=re.S)
b = s.index("--------------------------------------------------------------------------------\n## 12.")
s = s[:b] + rtext + "\n\n" + s[b:]
open(p, "w").write(s)
print(len(rrows), "refactorings")
