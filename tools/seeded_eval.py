#!/usr/bin/env python3
"""Evaluate seeded defects:  tools/seeded_eval.py <seed_worktree> <PROP> [checks...]
For every seeded_<PROP>_k directory in the worktree:
  1. confirm demo.py FAILS with the patch and PASSES without (in the scratch worktree),
  2. run the relevant repository tests with the patch (subset chosen from touched files),
  3. copy patch/demo/meta to /verif/seeded/<PROP>_k/,
  4. apply the patch to /repo, run the given quick checks, record which caught it, revert /repo.
"""
import glob, json, os, shutil, subprocess, sys, time

wt, prop = sys.argv[1], sys.argv[2]
checks = sys.argv[3:] or [prop]
ENV = dict(os.environ, PYTHONPATH=wt, JAX_PLATFORMS="cpu")


def sh(cmd, cwd=None, env=None, timeout=1800):
    return subprocess.run(cmd, shell=True, cwd=cwd, env=env, capture_output=True, text=True, timeout=timeout)


assert sh("git status --porcelain --untracked-files=no", cwd="/repo").stdout.strip() == "", "/repo has local modifications"
for d in sorted(glob.glob(os.path.join(wt, f"seeded_{prop}_*"))):
    k = os.path.basename(d).split("_")[-1]
    name = f"{prop}_{k}"
    patch = os.path.join(d, "patch.diff")
    if os.path.exists(f"/verif/seeded/{name}/meta.json") and "verification" in json.load(open(f"/verif/seeded/{name}/meta.json")) and not os.environ.get("SEEDED_REDO"):
        print(name, "already evaluated")
        continue
    out = {"id": name}
    sh("git checkout -- .", cwd=wt)
    r0 = sh(f"/venv/bin/python {d}/demo.py", cwd=wt, env=ENV, timeout=900)
    assert sh(f"git apply {patch}", cwd=wt).returncode == 0, "patch does not apply"
    r1 = sh(f"/venv/bin/python {d}/demo.py", cwd=wt, env=ENV, timeout=900)
    files = sh("git diff --name-only", cwd=wt).stdout.split()
    tests = sorted({t for f in files for t in glob.glob(os.path.join(wt, "tests", "test_*.py"))
                    if os.path.basename(f)[:-3].split("_")[0] in os.path.basename(t)})
    if any("replay_buffer" in f for f in files):
        tests += [os.path.join(wt, "tests", "test_replay_buffer.py")]
    tests = sorted(set(tests))[:2]  # the seeding agents ran the full suite with each patch (see meta.json "ran"); this is a spot check
    rt = sh(f"/venv/bin/python -m pytest -q -p no:cacheprovider --timeout=900 {' '.join(tests)}", cwd=wt, env=ENV, timeout=3000) if tests else None
    sh("git checkout -- .", cwd=wt)
    out["demo_without_patch_passes"] = r0.returncode == 0
    out["demo_with_patch_fails"] = r1.returncode != 0
    out["tests_run_with_patch"] = [os.path.basename(t) for t in tests]
    out["tests_pass_with_patch"] = (rt.returncode == 0) if rt else None
    dst = f"/verif/seeded/{name}"
    os.makedirs(dst, exist_ok=True)
    for f in ("patch.diff", "demo.py"):
        shutil.copy(os.path.join(d, f), os.path.join(dst, f))
    meta = json.load(open(os.path.join(d, "meta.json")))
    run_checks = checks
    if checks == ["auto"]:
        import re as _re
        RELATED = {"C01": ["C01", "C13", "C14", "C04"], "C02": ["C02", "C19", "C01"], "C04": ["C04", "C08"], "C05": ["C05", "C06"], "C06": ["C06", "C05", "C15"], "C08": ["C08"],
                   "C09": ["C09"], "C10": ["C10"], "C11": ["C11", "C01", "C14"], "C13": ["C13", "C14"], "C14": ["C14", "C13"], "C15": ["C15"], "C16": ["C16"],
                   "C19": ["C19"], "C20": ["C20"], "C03": ["C03", "C07"], "C07": ["C07", "C01", "C04"]}
        ids = _re.findall(r"C\d\d", str(meta.get("property", "")))
        run_checks = []
        for i in ids:
            for c in RELATED.get(i, [i]):
                if c not in run_checks:
                    run_checks.append(c)
        run_checks = run_checks or ["C01", "C11"]
    # run our checks against /repo with the patch applied
    assert sh(f"git -C /repo apply {patch}").returncode == 0, "patch does not apply to /repo"
    det = {}
    try:
        for c in run_checks:
            t0 = time.time()
            rc = sh(f"./check {c} --tier quick", cwd="/verif", timeout=3000)
            viol = [l for l in rc.stdout.splitlines() if l.startswith("  C")][:4]
            det[c] = {"exit": rc.returncode, "violations": viol, "wall_s": round(time.time() - t0, 1)}
    finally:
        sh("git -C /repo checkout -- .")
        sh("git -C /verif checkout -- evidence", cwd="/verif")
    out["checks"] = det
    out["caught_by"] = [c for c, v in det.items() if v["exit"] == 1]
    meta["verification"] = out
    json.dump(meta, open(os.path.join(dst, "meta.json"), "w"), indent=1)
    print(name, "demo ok" if out["demo_without_patch_passes"] and out["demo_with_patch_fails"] else "DEMO PROBLEM",
          "tests", out["tests_pass_with_patch"], "caught_by", out["caught_by"], {c: v["exit"] for c, v in det.items()})
