#!/usr/bin/env python3
"""False-alarm test: apply behaviour-preserving refactorings to /repo and run quick checks; every check must exit 0.
   tools/refactor_eval.py <worktree> <ID> <checks...>   -> writes /verif/refactors/<ID>_k/{patch.diff,meta.json}"""
import glob, json, os, shutil, subprocess, sys, time

wt, rid = sys.argv[1], sys.argv[2]
checks = sys.argv[3:]


def sh(cmd, cwd=None, timeout=3600):
    return subprocess.run(cmd, shell=True, cwd=cwd, capture_output=True, text=True, timeout=timeout)


assert sh("git status --porcelain --untracked-files=no", cwd="/repo").stdout.strip() == "", "/repo has local modifications"
for d in sorted(glob.glob(os.path.join(wt, f"refactor_{rid}_*"))):
    k = os.path.basename(d).split("_")[-1]
    name = f"{rid}_{k}"
    patch = os.path.join(d, "patch.diff")
    dst = f"/verif/refactors/{name}"
    os.makedirs(dst, exist_ok=True)
    shutil.copy(patch, os.path.join(dst, "patch.diff"))
    meta = json.load(open(os.path.join(d, "meta.json"))) if os.path.exists(os.path.join(d, "meta.json")) else {}
    if sh(f"git -C /repo apply {patch}").returncode != 0:
        print(name, "PATCH DOES NOT APPLY")
        continue
    stat = sh("git -C /repo diff --stat").stdout.strip().splitlines()[-1:]
    res = {}
    try:
        for c in checks:
            t0 = time.time()
            rc = sh(f"./check {c} --tier quick", cwd="/verif")
            res[c] = {"exit": rc.returncode, "lines": [l for l in (rc.stdout + rc.stderr).splitlines() if l.startswith("  C") or "HARNESS" in l][:4], "wall_s": round(time.time() - t0, 1)}
    finally:
        sh("git -C /repo checkout -- .")
        sh("git -C /verif checkout -- evidence", cwd="/verif")
    meta["diffstat"] = stat
    meta["checks"] = res
    meta["all_quiet"] = all(v["exit"] == 0 for v in res.values())
    json.dump(meta, open(os.path.join(dst, "meta.json"), "w"), indent=1)
    print(name, stat, "ALL QUIET" if meta["all_quiet"] else "ALARMS: " + str({c: v["exit"] for c, v in res.items() if v["exit"] != 0}))
